#!/venv/bin/python
"""Rewrite the table after <!-- SEEDED-TABLE --> in DESIGN.md from seeded/*/meta.json."""
import json, pathlib, re
HOME = pathlib.Path(__file__).resolve().parent.parent
rows = ["| seeded change | property | what it needs to manifest | caught by |", "|---|---|---|---|"]
for d in sorted((HOME / "seeded").iterdir()):
    m = json.loads((d / "meta.json").read_text())
    needs = re.sub(r"\s+", " ", m.get("needs", "") if isinstance(m.get("needs"), str) else json.dumps(m.get("needs")))[:260]
    cb = "; ".join(f"**{k}**: {v}" for k, v in m["verification"]["caught_by"].items())
    rows.append(f"| `{d.name}` — {re.sub(r'\s+', ' ', m.get('summary', ''))[:220]} | {m['property']} | {needs} | {cb} |".replace("\n", " "))
p = HOME / "DESIGN.md"
s = p.read_text()
head = s.split("<!-- SEEDED-TABLE -->")[0]
p.write_text(head + "<!-- SEEDED-TABLE -->\n\n" + "\n".join(rows) + "\n")
print(len(rows) - 2, "seeded changes")
