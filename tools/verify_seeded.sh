#!/bin/bash
# usage: tools/verify_seeded.sh <dir with patch.diff demo.py meta.json> PROP [PROP...]
# 1. scratch copy of /repo + patch: baseline tests must still pass; 2. demo.py exits 0 on the clean copy and !=0 on the patched
# one; 3. the given checks are run against the patched copy (expected exit 1). Prints a summary; removes the copies.
set -u
D="$(readlink -f "$1")"; shift
HERE="$(cd "$(dirname "${BASH_SOURCE[0]}")/.." && pwd)"
SCR="$(mktemp -d /tmp/yvseed.XXXXXX)"
for t in clean patched; do mkdir -p $SCR/$t; rsync -a --exclude .git --exclude htmlcov --exclude docs --exclude benchmarks --exclude extras /repo/ $SCR/$t/; done
( cd $SCR/patched && patch -p1 -s < "$D/patch.diff" ) || { echo "SEEDED $(basename $D): PATCH-FAILED"; rm -rf $SCR; exit 2; }
# tests
( cd $SCR/patched && PYTHONPATH=$SCR/patched/src timeout 1500 /venv/bin/python -m pytest -q -p no:cacheprovider --timeout=900 --continue-on-collection-errors --junitxml=$SCR/junit.xml tests >/dev/null 2>&1 )
TESTS=$($HERE/tools/baseline_check.py $SCR/junit.xml)
# demo
for t in clean patched; do
  ( cd $SCR/$t && NUMBA_CACHE_DIR=$SCR/nb_$t PYTHONPATH=$SCR/$t/src timeout 600 /venv/bin/python "$D/demo.py" > $SCR/demo_$t.log 2>&1 ); echo $? > $SCR/demo_$t.rc
done
echo "SEEDED $(basename $D): tests[$TESTS] demo clean rc=$(cat $SCR/demo_clean.rc) patched rc=$(cat $SCR/demo_patched.rc) :: $(tail -1 $SCR/demo_patched.log | cut -c1-160)"
EVBAK="$(mktemp -d /tmp/yvev.XXXXXX)"; cp -a "$HERE/evidence/." "$EVBAK/" 2>/dev/null
for P in "$@"; do
  S=$(date +%s); OUT="$(cd "$HERE" && YV_REPO="$SCR/patched" YV_CACHE="$SCR/cache" ./check "$P" "${TIER:-quick}" 2>&1)"; RC=$?
  echo "  CHECK $P rc=$RC $(( $(date +%s)-S ))s :: $(echo "$OUT" | grep -m1 -E 'bucket=|INCONCLUSIVE|HARNESS' | cut -c1-230)"
done
cp -a "$EVBAK/." "$HERE/evidence/" 2>/dev/null; rm -rf "$EVBAK" "$SCR"
