#!/venv/bin/python
"""usage: tools/keep_seeded.py <src dir with patch.diff demo.py meta.json> <id> <round-origin text> <verify log> [note]
Copies a verified seeded change into seeded/<id>/ and completes its meta.json from the log of tools/verify_seeded.sh."""
import json, pathlib, re, shutil, sys

src, sid, origin, log = pathlib.Path(sys.argv[1]), sys.argv[2], sys.argv[3], pathlib.Path(sys.argv[4]).read_text()
note = sys.argv[5] if len(sys.argv) > 5 else None
dst = pathlib.Path(__file__).resolve().parent.parent / "seeded" / sid
dst.mkdir(parents=True, exist_ok=True)
for f in ("patch.diff", "demo.py"):
    shutil.copy(src / f, dst / f)
m = json.loads((src / "meta.json").read_text())
m["id"] = sid
m["origin"] = origin
head = re.search(r"SEEDED .*?: tests\[(.*?)\] demo clean rc=(\d+) patched rc=(\d+)", log)
caught = {}
for c in re.finditer(r"CHECK (C\d\d) rc=(\d+) (\d+)s :: *(.*)", log):
    caught[c.group(1)] = f"rc={c.group(2)} {c.group(4)[:200]}".strip()
m["checks"] = sorted(k for k, v in caught.items() if v.startswith("rc=1"))
m["verification"] = {
    "tests": head.group(1) if head else "?",
    "demo": f"clean rc={head.group(2)}, patched rc={head.group(3)}" if head else "?",
    "caught_by": caught,
    "procedure": "tools/verify_seeded.sh: scratch copies of /repo under /tmp (clean and patched), full pytest run + tools/baseline_check.py, demo.py on both, ./check <prop> quick with YV_REPO=<patched copy>; copies removed afterwards",
}
if note:
    m["verification"]["note"] = note
(dst / "meta.json").write_text(json.dumps(m, indent=1))
print(sid, m["checks"], m["verification"]["demo"])
