#!/venv/bin/python
"""Run the repository's pinned baseline (guard off) and compare with /root/.vp/BASELINE.json.
usage: tools/baseline_check.py [junit.xml]   (runs pytest itself if no file is given)"""
import json, os, subprocess, sys, tempfile, xml.etree.ElementTree as ET

def main():
    base = json.load(open("/root/.vp/BASELINE.json"))
    if len(sys.argv) > 1:
        path = sys.argv[1]
    else:
        path = tempfile.mktemp(suffix=".xml")
        env = {k: v for k, v in os.environ.items() if k != "NNPDF_YADISM_VERIF"}
        subprocess.run(base["cmd"].replace("<file>", path), shell=True, env=env,
                       stdout=subprocess.DEVNULL, stderr=subprocess.DEVNULL)
    passed = set()
    for tc in ET.parse(path).getroot().iter("testcase"):
        if not list(tc):
            passed.add(f"{tc.get('classname')}::{tc.get('name')}")
    missing = [t for t in base["stable_pass"] if t not in passed]
    print(f"passed={len(passed)} baseline={len(base['stable_pass'])} missing={missing}")
    return 1 if missing else 0

sys.exit(main())
