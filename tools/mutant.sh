#!/bin/bash
# usage: tools/mutant.sh <patch.diff> PROP [PROP...]   (env TIER=quick|thorough)
# Applies the patch to a scratch copy of /repo (outside /repo and /verif), runs the given checks against it with
# YV_REPO, prints one line per check, and deletes the copy. Evidence files of /verif are restored afterwards.
set -u
PATCH="$(readlink -f "$1")"; shift
HERE="$(cd "$(dirname "${BASH_SOURCE[0]}")/.." && pwd)"
SCR="$(mktemp -d /tmp/yvmut.XXXXXX)"
mkdir -p "$SCR/repo"
rsync -a --exclude .git --exclude htmlcov --exclude docs --exclude benchmarks --exclude extras /repo/ "$SCR/repo/"
( cd "$SCR/repo" && patch -p1 -s < "$PATCH" ) || { echo "PATCH-FAILED $PATCH"; rm -rf "$SCR"; exit 2; }
EVBAK="$(mktemp -d /tmp/yvev.XXXXXX)"; cp -a "$HERE/evidence/." "$EVBAK/" 2>/dev/null
for P in "$@"; do
  START=$(date +%s)
  OUT="$(cd "$HERE" && YV_REPO="$SCR/repo" YV_CACHE="$SCR/cache" ./check "$P" "${TIER:-quick}" 2>&1)"; RC=$?
  NAME="$(basename "$PATCH")"; [ "$NAME" = "patch.diff" ] && NAME="$(basename "$(dirname "$PATCH")")"
  echo "MUTANT $NAME $P rc=$RC $(( $(date +%s) - START ))s :: $(echo "$OUT" | grep -m1 -E 'bucket=|INCONCLUSIVE|HARNESS' | cut -c1-220)"
done
cp -a "$EVBAK/." "$HERE/evidence/" 2>/dev/null; rm -rf "$EVBAK" "$SCR"
