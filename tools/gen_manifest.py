#!/venv/bin/python
"""Regenerate /verif/MANIFEST.json from the registry below (one entry per implemented check)."""
import json
import pathlib
import sys

HOME = pathlib.Path(__file__).resolve().parent.parent
sys.path.insert(0, str(HOME))

TITLES = {}
for line in (HOME / "properties.jsonl").read_text().splitlines():
    p = json.loads(line)
    TITLES[p["id"]] = p["title"]

# id -> (technique, level text, level note, design ref)
REG = json.loads((HOME / "tools" / "registry.json").read_text())

checks = []
for pid in sorted(TITLES):
    if pid not in REG or not (HOME / "yv" / "props" / f"{pid.lower()}.py").exists():
        continue
    r = REG[pid]
    checks.append(
        {
            "property_id": pid,
            "quick_cmd": f"./check {pid} quick",
            "thorough_cmd": f"./check {pid} thorough",
            "evidence_file": f"/verif/evidence/{pid}.json",
            "replay_cmd_template": f"./check {pid} --replay {{path}}",
            "engine": "yv",
            "level_claimed": {
                "category": "exploration",
                "text": r["text"],
                "design_ref": r["design_ref"],
            },
            "level_note": r["note"],
            "technique": r["technique"],
        }
    )
claimed = {c["property_id"] for c in checks}
na = [
    {"property_id": pid, "reason": REG.get(pid, {}).get("na_reason", "check not built yet in this commit (planned, see DESIGN.md section 3)")}
    for pid in sorted(TITLES)
    if pid not in claimed
]
manifest = {
    "version": 1,
    "setup_cmd": "./check --setup",
    "hooks": {
        "guard": "NNPDF_YADISM_VERIF",
        "enable": "no hooks are needed: every property is observed through the public API; the variable is exported by ./check for interface completeness only",
        "baseline_off_cmd": "cd /repo && env -u NNPDF_YADISM_VERIF /venv/bin/python -m pytest -ra -q -p no:cacheprovider --timeout=900 --continue-on-collection-errors",
        "source_commits": [],
        "add_only": True,
    },
    "engines": [
        {
            "name": "yv",
            "path": "/verif/yv",
            "serves_properties": sorted(claimed),
            "kind_free_text": "Hypothesis-driven generated-input search (sharded over 16 processes) with explicit oracles: reference models, metamorphic/differential relations, stateful machines; replay files for every failure",
        }
    ],
    "checks": checks,
    "not_applicable": na,
    "notes": "All checks run /venv/bin/python against $YV_REPO/src (default /repo/src) with a numba cache keyed on a hash of the source tree. Exit 0 held / 1 VIOLATION / 2 inconclusive (harness error, wall budget, mandatory input class never generated). Fixed and open findings: /verif/known_findings.json.",
}
(HOME / "MANIFEST.json").write_text(json.dumps(manifest, indent=1) + "\n")
print(f"MANIFEST: {len(checks)} checks, {len(na)} not claimed")
try:
    import jsonschema

    jsonschema.validate(manifest, json.load(open("/root/.vp/MANIFEST.schema.json")))
    print("schema ok")
except ImportError:
    pass
