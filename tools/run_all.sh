#!/bin/bash
# usage: tools/run_all.sh [quick|thorough] [PROP...]  -> one summary line per registered check
cd "$(dirname "${BASH_SOURCE[0]}")/.."
TIER="${1:-quick}"; shift
PROPS="$@"
[ -z "$PROPS" ] && PROPS=$(/venv/bin/python -c "import json; print(' '.join(c['property_id'] for c in json.load(open('MANIFEST.json'))['checks']))")
for P in $PROPS; do
  S=$(date +%s); OUT=$(./check $P $TIER 2>&1); RC=$?
  echo "$P rc=$RC $(( $(date +%s)-S ))s | $(echo "$OUT" | grep -E '^\[C' | tail -1) $(echo "$OUT" | grep -E -c '^VIOLATION') viol $(echo "$OUT" | grep -E -c '^KNOWN-FINDING') known"
  [ $RC -ne 0 ] && echo "$OUT" | grep -E 'bucket=|INCONCLUSIVE|HARNESS|Error' | head -5
done
