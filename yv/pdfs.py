"""lhapdf-like toy PDFs, fully determined by JSON-serialisable parameters."""

import math

QUARKS = [-6, -5, -4, -3, -2, -1, 1, 2, 3, 4, 5, 6]
ALL = [22] + QUARKS[:6] + [21] + QUARKS[6:]


class SmoothPDF:
    """x f(x,Q2) = N_p x^a_p (1-x)^b_p (1+c_p x) (Q2/Q0^2)^g_p ; flavours outside `flavors` absent."""

    def __init__(self, params, flavors=None, q2dep=True, raise_absent=False):
        self.params = {int(k): v for k, v in params.items()}
        self.flavors = set(self.params) if flavors is None else set(flavors)
        self.q2dep = q2dep
        self.raise_absent = raise_absent
        self.calls = []

    def hasFlavor(self, pid):
        return pid in self.flavors

    def xfxQ2(self, pid, x, q2):
        if pid not in self.flavors:
            if self.raise_absent:
                raise KeyError(f"flavour {pid} not provided")
            return 0.0
        n, a, b, c, g = self.params[pid]
        val = n * x**a * max(1.0 - x, 0.0) ** b * (1.0 + c * x)
        if self.q2dep:
            val *= (q2 / 10.0) ** g
        return val


def smooth_params(draw, st, flavors=None):
    """draw parameters for every pid"""
    out = {}
    for pid in ALL if flavors is None else flavors:
        out[str(pid)] = [
            round(draw(st.floats(-1.0, 2.0)), 3),
            round(draw(st.floats(-0.3, 0.6)), 3),
            round(draw(st.floats(2.5, 5.0)), 3),
            round(draw(st.floats(-0.5, 2.0)), 3),
            round(draw(st.floats(-0.3, 0.3)), 3),
        ]
    return out


class NodePDF:
    """PDF defined by values at the grid nodes only (x f at node j for each pid); enough for apply_pdf."""

    def __init__(self, grid, values, flavors=None):
        self.grid = [float(x) for x in grid]
        self.values = {int(k): v for k, v in values.items()}
        self.flavors = set(self.values) if flavors is None else set(flavors)

    def hasFlavor(self, pid):
        return pid in self.flavors

    def xfxQ2(self, pid, x, q2):
        j = min(range(len(self.grid)), key=lambda i: abs(self.grid[i] - x))
        return self.values[pid][j] * (1.0 + 0.01 * math.log(q2))
