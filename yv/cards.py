"""Run cards: the documented template (docs/source/overview/tutorials/getting_started.ipynb) and
Hypothesis strategies that build valid variations of it *by construction*."""

import math

from hypothesis import strategies as st

CKM_STR = "0.97428 0.22530 0.003470 0.22520 0.97345 0.041000 0.00862 0.04030 0.999152"

BASE_THEORY = {
    "PTO": 1,
    "CKM": CKM_STR,
    "GF": 1.1663787e-05,
    "MP": 0.938,
    "MW": 80.398,
    "MZ": 91.1876,
    "alphaqed": 0.007496252,
    "kcThr": 1.0,
    "kbThr": 1.0,
    "ktThr": 1.0,
    "mc": 1.51,
    "mb": 4.92,
    "mt": 172.5,
    "FNS": "ZM-VFNS",
    "NfFF": 4,
    "Q0": 1.65,
    "nf0": 4,
    "Qref": 91.2,
    "nfref": 5,
    "alphas": 0.118,
    "MaxNfAs": 5,
    "QED": 0,
    "XIF": 1.0,
    "XIR": 1.0,
    "IC": 1,
    "TMC": 0,
    "n3lo_cf_variation": 0,
    "HQ": "POLE",
    "MaxNfPdf": 5,
    "ModEv": "EXA",
    "SIN2TW": 0.23126,
    "RenScaleVar": False,
    "FactScaleVar": False,
}

BASE_OBS = {
    "prDIS": "NC",
    "ProjectileDIS": "electron",
    "TargetDIS": "proton",
    "interpolation_is_log": True,
    "interpolation_polynomial_degree": 3,
    "interpolation_xgrid": [1e-4, 1e-3, 1e-2, 0.1, 0.3, 0.6, 1.0],
    "observables": {},
    "PolarizationDIS": 0.0,
    "PropagatorCorrection": 0.0,
    "NCPositivityCharge": None,
}

SFS = ["F2", "FL", "F3", "g1", "gL", "g4"]
UNPOL = ["F2", "FL", "F3"]
HEAVY = ["charm", "bottom", "top"]
PROJECTILES = ["electron", "positron", "neutrino", "antineutrino"]
SCHEMES = ["ZM-VFNS", "FFNS", "FFN0", "FONLL-FFNS", "FONLL-FFN0"]


def theory(**kw):
    t = dict(BASE_THEORY)
    t.update(kw)
    return t


def observables(**kw):
    o = dict(BASE_OBS)
    o["interpolation_xgrid"] = list(BASE_OBS["interpolation_xgrid"])
    o.update(kw)
    return o


# --------------------------------------------------------------------------- documented limits
def unsupported(kind, process, pto, tmc=0, scheme="ZM-VFNS"):
    """Configurations the package does not implement (documented gaps; they are explored by C16 only
    and excluded *by construction* from the generators of the other properties)."""
    pol = kind in ("g1", "gL", "g4")
    if pol and process == "CC":
        return "polarised CC not implemented"
    if pol and pto >= 3:
        return "polarised N3LO not implemented"
    if kind in ("gL", "g4") and tmc != 0:
        return "TMC for gL/g4 not implemented"
    return None


def ints(lo, hi):
    """st.integers(lo, hi) written as an offset from lo. Same distribution for Hypothesis' own generation; needed for the
    atheris driver: BytestringProvider.draw_integer of hypothesis 6.168 draws (hi-lo).bit_length() bits and compares the raw
    value with [lo, hi] without adding lo, so integers(4, 6) or integers(350, 600) overrun every fuzz input."""
    return st.integers(0, hi - lo).map(lambda v, lo=lo: v + lo)


# --------------------------------------------------------------------------- grids
@st.composite
def grids(draw, nmin=4, nmax=12, umin=1.0, umax=5.0, max_degree=5):
    """Interpolation set-up: strictly increasing nodes ending at 1.0, degree, log flag."""
    n = draw(ints(nmin, nmax))
    u = draw(st.floats(umin, umax))
    xmin = 10.0 ** (-u)
    family = draw(st.sampled_from(["geometric", "make_grid", "jittered", "linear"]))
    if family == "geometric":
        g = [xmin ** (1 - i / (n - 1)) for i in range(n)]
    elif family == "linear":
        g = [xmin + (1 - xmin) * i / (n - 1) for i in range(n)]
    elif family == "make_grid":
        nlow = max(1, n // 2)
        nmid = n - nlow
        xm = max(0.1, xmin * 1.5) if xmin < 0.1 else (xmin + 1) / 2
        low = [xmin * (xm / xmin) ** (i / nlow) for i in range(nlow)]
        mid = [xm + (1 - xm) * i / (nmid - 1 if nmid > 1 else 1) for i in range(nmid)]
        g = low + mid
    else:
        ts = sorted(draw(st.lists(st.floats(0.02, 0.98), min_size=n - 2, max_size=n - 2, unique=True)))
        g = [xmin] + [xmin ** (1 - t) for t in ts] + [1.0]
    g[-1] = 1.0
    g = sorted(set(float(f"{x:.12g}") for x in g))
    # remove near-duplicates (eko refuses duplicates; nearly coinciding nodes make the monomial coefficients of eko's basis
    # explode - 3e7 for nodes 0.13 % apart, evaluation error 2e-8, false alarm of C02 at seed 11 - which no real grid has):
    # neighbouring nodes are at least 5 % apart
    out = [g[0]]
    for x in g[1:]:
        if x / out[-1] > 1.05:
            out.append(x)
    if out[-1] != 1.0:
        out[-1] = 1.0
    if len(out) < 3:
        out = [xmin, math.sqrt(xmin), 1.0]
    n = len(out)
    degree = draw(ints(1, min(n - 1, max_degree)))
    is_log = draw(st.booleans())
    # keep the interpolation well conditioned (Lebesgue constant <= 50): e.g. linear-mode degree-5 polynomials on
    # log-spaced nodes reach 1e8 and make every comparison meaningless; lower the degree by construction
    from . import basis

    while degree > 1 and basis.Basis(out, degree, is_log).lebesgue() > 50.0:
        degree -= 1
    return {"xgrid": out, "degree": degree, "log": is_log, "family": family}


def apply_grid(obs, grid):
    obs["interpolation_xgrid"] = list(grid["xgrid"])
    obs["interpolation_polynomial_degree"] = grid["degree"]
    obs["interpolation_is_log"] = grid["log"]
    return obs


@st.composite
def x_in_grid(draw, grid, lo_frac=0.0, allow_one=False, classes=None):
    """Bjorken x relative to a grid; returns (x, class)."""
    g = grid["xgrid"]
    classes = classes or ["interior", "node", "near_node", "above_xmin", "large"]
    cls = draw(st.sampled_from(classes))
    if cls == "node":
        i = draw(st.integers(0, len(g) - (1 if allow_one else 2)))
        return g[i], cls
    if cls == "near_node":
        i = draw(ints(1, len(g) - 2))
        s = draw(st.sampled_from([-1, 1]))
        # relative distance to the node: 1e-9 as often as any other decade between 1e-12 and 1e-3
        dlt = draw(st.sampled_from([1e-9, 1e-9]) | st.floats(3.0, 12.0).map(lambda e: float(f"{10.0 ** -e:.3g}")))
        return g[i] * (1 + s * dlt), cls
    if cls == "above_xmin":
        return g[0] * (1 + draw(st.floats(1e-9, 1e-2))), cls
    if cls == "large":
        k = draw(st.floats(1.0, 5.0))
        return max(g[0], 1 - 10.0 ** (-k)), cls
    i = draw(st.integers(0, len(g) - 2))
    t = draw(st.floats(0.05, 0.95))
    return g[i] + t * (g[i + 1] - g[i]), "interior"


def q2_values(lo=1.0, hi=1e5):
    return st.floats(math.log(lo), math.log(hi)).map(lambda l: float(f"{math.exp(l):.10g}"))


# --------------------------------------------------------------------------- EW / CKM
@st.composite
def ckm(draw, style=None):
    style = style or draw(st.sampled_from(["default", "str", "list"]))
    if style == "default":
        return CKM_STR
    vals = [draw(st.floats(0.0, 1.0).map(lambda v: round(v, 6))) for _ in range(9)]
    if style == "str":
        return " ".join(repr(v) for v in vals)
    return vals


@st.composite
def ew_params(draw):
    d = {
        "SIN2TW": round(draw(st.floats(0.02, 0.98)), 6),
        "MZ": round(draw(st.floats(10.0, 1000.0)), 4),
    }
    # MW is required by the Runner (theory["MW"] ** 2), so it is always present
    d["MW"] = round(draw(st.floats(10.0, 1000.0)), 4)
    return d


@st.composite
def masses(draw, dyadic=False):
    """Sorted heavy-quark masses and threshold ratios (matching scales ordered, as eko's nf_default
    assumes)."""
    if dyadic:
        ms = sorted(draw(st.lists(ints(5, 2000), min_size=3, max_size=3, unique=True)))
        mc, mb, mt = [m / 4.0 for m in ms]
        ks = [draw(st.sampled_from([0.5, 0.75, 1.0, 1.5, 2.0])) for _ in range(3)]
    else:
        mc = round(draw(st.floats(1.1, 2.0)), 4)
        mb = round(draw(st.floats(3.5, 6.0)), 4)
        mt = round(draw(st.floats(100.0, 250.0)), 3)
        ks = [1.0, 1.0, 1.0]
    # enforce ordered matching scales
    sc = [mc * ks[0], mb * ks[1], mt * ks[2]]
    if not sc[0] < sc[1] < sc[2]:
        ks = [1.0, 1.0, 1.0]
    return {"mc": mc, "mb": mb, "mt": mt, "kcThr": ks[0], "kbThr": ks[1], "ktThr": ks[2]}


def nf_ref(theory_card, q2):
    """Number of active flavours the documentation prescribes."""
    fns = theory_card["FNS"]
    if fns != "ZM-VFNS":
        return theory_card["NfFF"]
    nf = 3
    for m, k in (("mc", "kcThr"), ("mb", "kbThr"), ("mt", "ktThr")):
        mk = theory_card[m] * theory_card[k]
        if mk * mk <= q2:  # correctly rounded (m k)^2
            nf += 1
    return nf


def process_projectiles(process):
    return PROJECTILES
