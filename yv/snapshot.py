"""Type-strict deep snapshots of card objects (values, types, array dtypes, aliasing structure)."""

import numpy as np


def snap(obj, _ids=None, _path="$"):
    """Return a nested, comparable description of `obj`.

    Containers record their element snapshots; mutable containers that occur more than once (aliasing)
    are recorded as a reference to the path of their first occurrence, so that a broken or newly introduced
    alias shows up as a difference."""
    if _ids is None:
        _ids = {}
    if isinstance(obj, (dict, list)) or isinstance(obj, np.ndarray):
        if id(obj) in _ids:
            return ("alias", _ids[id(obj)])
        _ids[id(obj)] = _path
    if isinstance(obj, dict):
        return ("dict", type(obj).__name__, [(snap_key(k), snap(v, _ids, f"{_path}.{k}")) for k, v in obj.items()])
    if isinstance(obj, list):
        return ("list", [snap(v, _ids, f"{_path}[{i}]") for i, v in enumerate(obj)])
    if isinstance(obj, tuple):
        return ("tuple", [snap(v, _ids, f"{_path}[{i}]") for i, v in enumerate(obj)])
    if isinstance(obj, np.ndarray):
        return ("ndarray", str(obj.dtype), obj.shape, obj.tobytes())
    if isinstance(obj, float):  # includes np.float64
        return (type(obj).__name__, repr(float(obj)))
    if isinstance(obj, np.generic):
        return (type(obj).__name__, repr(obj.item()))
    return (type(obj).__name__, repr(obj))


def snap_key(k):
    return (type(k).__name__, repr(k))


def diff(a, b, path="$"):
    """First difference between two snapshots (None if equal)."""
    if a == b:
        return None
    if type(a) != type(b) or not isinstance(a, tuple) or a[0] != b[0]:
        return f"{path}: {str(a)[:120]} -> {str(b)[:120]}"
    if a[0] == "dict":
        ka, kb = [k for k, _ in a[2]], [k for k, _ in b[2]]
        if ka != kb:
            return f"{path}: keys {[k[1] for k in ka]} -> {[k[1] for k in kb]}"
        for (k, va), (_, vb) in zip(a[2], b[2]):
            d = diff(va, vb, f"{path}.{k[1]}")
            if d:
                return d
    if a[0] in ("list", "tuple"):
        if len(a[1]) != len(b[1]):
            return f"{path}: length {len(a[1])} -> {len(b[1])}"
        for i, (va, vb) in enumerate(zip(a[1], b[1])):
            d = diff(va, vb, f"{path}[{i}]")
            if d:
                return d
    return f"{path}: {str(a)[:120]} -> {str(b)[:120]}"


def plain(obj):
    """Value-level normal form (types of containers and numpy-ness ignored) for 'deep-equal' comparisons."""
    if isinstance(obj, dict):
        return {str(k): plain(v) for k, v in obj.items()}
    if isinstance(obj, (list, tuple)):
        return [plain(v) for v in obj]
    if isinstance(obj, np.ndarray):
        return [plain(v) for v in obj.tolist()]
    if isinstance(obj, (bool, np.bool_)):
        return bool(obj)
    if isinstance(obj, (int, np.integer)):
        return int(obj)
    if isinstance(obj, (float, np.floating)):
        return ("f", repr(float(obj)))
    return obj
