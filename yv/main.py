"""CLI: python -m yv.main CNN quick|thorough | CNN --replay file | --setup"""

import os
import sys

from . import env


def main(argv):
    if not argv:
        print(__doc__)
        return 2
    if argv[0] == "--setup":
        env.setup()
        from . import warm

        warm.import_all(verbose=True)
        return 0
    prop = argv[0].upper()
    modname = f"yv.props.{prop.lower()}"
    seed = int(os.environ.get("VERIF_SEED", "1") or "1")
    env.setup()
    env.check_import_origin()
    from . import engine

    if len(argv) >= 3 and argv[1] == "--replay":
        return engine.replay_one(modname, argv[2])
    tier = argv[1] if len(argv) > 1 else os.environ.get("VERIF_TIER", "quick")
    if tier not in ("quick", "thorough"):
        print(f"unknown tier {tier}")
        return 2
    return engine.run_property(modname, tier, seed)


if __name__ == "__main__":
    try:
        rc = main(sys.argv[1:])
    except SystemExit:
        raise
    except BaseException:  # pylint: disable=broad-except
        import traceback

        traceback.print_exc()
        rc = 2
    sys.stdout.flush()
    sys.exit(rc)
