"""Strategy for a complete (theory card, observable card) of a supported configuration."""

import math

from hypothesis import strategies as st

from . import cards

HEAVYNESS = ["total", "light", "charm", "bottom", "top"]
XS_NC = ["XSHERANC", "XSHERANCAVG", "F1", "g5"]
XS_CC = ["XSHERACC", "XSCHORUSCC", "XSNUTEVCC", "XSNUTEVNU", "FW", "F1", "XSFPFCC"]
XS_KINDS = sorted(set(XS_NC + XS_CC))


def excluded(kind, process, scheme, pto, heavyness, tmc):
    """Why a configuration is not generated for the relational properties (None = generated).

    Only the documented gaps of the package (cards.unsupported): they are explicitly rejected by the code
    and explored by C16; generating them elsewhere would only produce `rejected` cases.
    """
    if kind in XS_KINDS:  # cross sections inherit the limits of the structure functions they combine
        kind = "gL" if kind == "g5" else "F2"
    r = cards.unsupported(kind, process, pto, tmc, scheme)
    if r:
        return r
    return None


@st.composite
def config(
    draw,
    kinds=None,
    processes=("EM", "NC", "CC"),
    schemes=tuple(cards.SCHEMES),
    max_pto=2,
    tmcs=(0,),
    sv=False,
    heavynesses=tuple(HEAVYNESS),
    n_points=(1, 2),
    q2range=(1.5, 1e4),
    grid_kw=None,
    x_classes=None,
    ew=True,
    fonllparts=("full",),
    n_obs=1,
    targets=("proton",),
    nc_pos=False,
):
    kinds = list(kinds or cards.SFS)
    for _ in range(50):
        kind = draw(st.sampled_from(kinds))
        process = draw(st.sampled_from(list(processes)))
        if kind in XS_KINDS and kind not in (XS_CC if process == "CC" else XS_NC):
            continue
        scheme = draw(st.sampled_from(list(schemes)))
        pto = draw(st.integers(0, max_pto))
        heavyness = draw(st.sampled_from(list(heavynesses)))
        tmc = draw(st.sampled_from(list(tmcs)))
        if excluded(kind, process, scheme, pto, heavyness, tmc) is None:
            break
    else:  # pragma: no cover - the lattice always contains supported cells
        kind, process, scheme, pto, heavyness, tmc = "F2", "NC", "ZM-VFNS", 1, "total", 0
    nfff = draw(cards.ints(3, 5))
    if process == "EM":
        proj = draw(st.sampled_from(["electron", "positron"]))
    else:
        proj = draw(st.sampled_from(cards.PROJECTILES))
    grid = draw(cards.grids(**(grid_kw or {})))
    th = cards.theory(PTO=pto, FNS=scheme, NfFF=nfff, TMC=tmc)
    th.update(draw(cards.masses()))
    if ew and draw(st.booleans()):
        th.update(draw(cards.ew_params()))
    if process == "CC" and draw(st.booleans()):
        th["CKM"] = draw(cards.ckm())
    if pto == 3 and scheme != "ZM-VFNS":
        # the approximate N3LO massive coefficient functions come in three documented variants (central, upper, lower)
        th["n3lo_cf_variation"] = draw(st.sampled_from([0, 0, 1, -1]))
    if scheme.startswith("FONLL"):
        th["FONLLParts"] = draw(st.sampled_from(list(fonllparts)))
    if sv is True:
        th["RenScaleVar"] = draw(st.booleans())
        th["FactScaleVar"] = draw(st.booleans())
    elif sv == "both":
        th["RenScaleVar"] = th["FactScaleVar"] = True
    ob = cards.observables(prDIS=process, ProjectileDIS=proj)
    cards.apply_grid(ob, grid)
    if proj in ("electron", "positron") and process != "CC" and draw(st.booleans()):
        ob["PolarizationDIS"] = round(draw(st.floats(-1.0, 1.0)), 4)
    if process != "EM" and draw(st.integers(0, 3)) == 0:
        ob["PropagatorCorrection"] = round(draw(st.floats(-0.3, 0.3)), 4)
    tgt = draw(st.sampled_from(list(targets)))
    if tgt == "ZA":
        a = round(draw(st.floats(1.0, 240.0)), 3)
        # the corners of 0 <= Z <= A (pure neutron matter, pure proton matter) as often as a generic mixture; whole numbers also as ints
        z = round(draw(st.sampled_from([0.0, 1.0]) | st.floats(0.0, 1.0)) * a, 3)
        if draw(st.integers(0, 3)) == 0:
            a = int(math.ceil(a))
            z = int(min(round(z), a))
        # both spellings of the mapping: Z first (as in the docs) and A first (what a YAML/tar round trip, which sorts keys, hands back)
        tgt = {"Z": z, "A": a} if draw(st.booleans()) else {"A": a, "Z": z}
    ob["TargetDIS"] = tgt
    if nc_pos and process != "CC":
        ob["NCPositivityCharge"] = draw(
            st.sampled_from([None, "all", "up", "down", "strange", "charm", "bottom", "top"])
        )
    npts = draw(cards.ints(*n_points))
    kins = []
    for _ in range(npts):
        x, xcls = draw(cards.x_in_grid(grid, classes=x_classes))
        q2 = draw(cards.q2_values(*q2range))
        kin = {"x": x, "Q2": q2}
        if kind in XS_KINDS:
            kin["y"] = draw(st.sampled_from([1.0, 0.5, 1e-6]) | st.floats(0.01, 1.0).map(lambda y: round(y, 6)))
        kins.append(kin)
    name = f"{kind}_{heavyness}"
    ob["observables"] = {name: kins}
    meta = {
        "kind": kind,
        "process": process,
        "scheme": scheme,
        "pto": pto,
        "heavyness": heavyness,
        "tmc": tmc,
        "name": name,
        "grid_family": grid["family"],
    }
    return {"theory": th, "obs": ob, "meta": meta}


def split_orders(draw, th, meta=None):
    """The card may give the order of the coefficient functions as PTODIS next to a different evolution order PTO (which
    then only selects the asymptotic towers of FFN0 / FONLL-FFN0 and the coupling of `apply_pdf`), or PTODIS: None.
    Call it last: on entry th["PTO"] is the order of the coefficient functions (= meta["pto"]), and stays so in meta."""
    r = draw(st.integers(0, 7))
    if r == 0:
        th["PTODIS"] = None
    elif r <= 2:
        th["PTODIS"] = th["PTO"]
        th["PTO"] = draw(st.sampled_from([o for o in range(4) if o != th["PTODIS"]]))
        if meta is not None:
            meta["pto_evol"] = th["PTO"]
    return th


def abbreviate(case):
    """Shorter rendering of a case for evidence samples."""
    import copy

    c = copy.deepcopy(case)

    def walk(d):
        if isinstance(d, dict):
            if "theory" in d and isinstance(d["theory"], dict):
                base = cards.BASE_THEORY
                d["theory"] = {k: v for k, v in d["theory"].items() if base.get(k, object()) != v}
            for v in d.values():
                walk(v)
        elif isinstance(d, list):
            for v in d:
                walk(v)

    walk(c)
    return c
