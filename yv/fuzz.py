"""Coverage-guided driver (atheris / libFuzzer) for properties whose code under test is pure Python.

usage: python -m yv.fuzz <module> <seed> <runs> <stats.json>
The byte string mutated by libFuzzer is decoded by Hypothesis (`fuzz_one_input`) into the property's structured case, so the
oracle is exactly `check_case`; coverage feedback comes from the instrumented pure-Python modules of the package (serialisation,
result objects, card compatibility layer, runner). Failing cases are written as ordinary replay files; statistics are dumped
periodically because libFuzzer leaves the process without running exit handlers.
"""

import json
import os
import sys
import tempfile
import time


def main():
    modname, seed, runs, outfile = sys.argv[1], int(sys.argv[2]), int(sys.argv[3]), sys.argv[4]
    from . import env

    env.setup()
    sys.path.insert(0, str(env.HOME / ".deps"))
    import atheris

    # atheris filters at package granularity; every module that defines numba kernels is excluded by name (numba compiles from
    # bytecode and cannot digest the instrumented one)
    exclude = []
    for f in env.SRC.rglob("*.py"):
        if "numba" in f.read_text():
            rel = f.relative_to(env.SRC.parent).with_suffix("")
            exclude.append(".".join(rel.parts[:-1] if rel.name == "__init__" else rel.parts))
    with atheris.instrument_imports(include=["yadism"], exclude=exclude):
        import yadism  # noqa: F401
        import yadism.input.compatibility  # noqa: F401
        import yadism.output  # noqa: F401
    env.check_import_origin()
    import importlib

    from hypothesis import HealthCheck, given, settings

    from . import engine

    mod = importlib.import_module(modname)
    if hasattr(mod, "warmup"):
        mod.warmup()
    ctx = engine.WorkerCtx(mod, "thorough", seed, 900 + seed % 50, 1, runs, float(os.environ.get("YV_FUZZ_WALL", "1500")))
    t0 = time.time()
    state = {"n": 0}

    def dump():
        d = ctx.stats.to_dict()
        d["fuzz_executions"] = state["n"]
        d["fuzz_wall_s"] = round(time.time() - t0, 1)
        tmp = outfile + ".tmp"
        json.dump(d, open(tmp, "w"), default=str)
        os.replace(tmp, outfile)

    @settings(database=None, deadline=None, suppress_health_check=list(HealthCheck))
    @given(mod.fuzz_cases())
    def test(case):
        state["n"] += 1
        ctx.target_bucket = None
        try:
            ctx.process(case)
        except engine.Violation:
            ctx.finish_failure()
        if state["n"] % 25 == 0:
            dump()

    corpus = tempfile.mkdtemp(prefix="yv_corpus_")
    # seed corpus: Hypothesis needs a few hundred bytes before a structured case exists; libFuzzer would otherwise spend its
    # runs on inputs that decode to nothing. Deterministic in the seed.
    import random

    rng = random.Random(seed)
    for i in range(24):
        with open(os.path.join(corpus, f"seed{i:02d}"), "wb") as fh:
            fh.write(rng.randbytes(rng.choice([1024, 2048, 4096, 8192])))
    dump()
    atheris.Setup([sys.argv[0], f"-runs={runs}", f"-seed={max(1, seed)}", "-max_len=16384", "-len_control=0", "-print_final_stats=0", corpus], test.hypothesis.fuzz_one_input)
    atheris.Fuzz()


if __name__ == "__main__":
    main()
