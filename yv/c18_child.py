"""Child interpreter of C18: started with NUMBA_DISABLE_JIT=1 (interpreter semantics, bounds-checked) or with
NUMBA_BOUNDSCHECK=1 (compiled with bounds checking).  usage: python -m yv.c18_child oob|e2e <in.json> <out.json>"""

import json
import sys


def main():
    mode = sys.argv[1]
    from . import env

    tag = "nojit" if __import__("os").environ.get("NUMBA_DISABLE_JIT") == "1" else ("bc" if __import__("os").environ.get("NUMBA_BOUNDSCHECK") == "1" else "")
    env.setup(tag=tag)
    env.check_import_origin()
    import warnings

    import numpy as np

    from . import catalogue, run, warm

    warnings.simplefilter("ignore")
    if mode == "oob":
        warm.import_all()
        entries, problems = catalogue.build()
        out = {"evaluated": 0, "failures": [], "problems": problems, "entries": len(entries)}
        for e in entries:
            zs = [0.3, 0.731]
            if e.family == "heavy" and e.meta.get("m2"):
                zmax = 1.0 / (1.0 + 4.0 * e.meta["m2"] / e.meta["q2"])
                zs = [0.3 * zmax + 0.05 * (1 - 0.3) * 0, 0.9 * zmax]
                zs = [max(z, 0.0501) for z in zs]
            for part in ("reg", "sing", "loc"):
                f, a = e.part(part)
                if f is None:
                    continue
                for z in zs:
                    out["evaluated"] += 1
                    try:
                        val = f(z, a)
                        if np.ndim(val) != 0:
                            val = np.asarray(val).reshape(-1)[0]
                        float(val)
                    except IndexError as ex:
                        out["failures"].append({"id": e.id, "part": part, "fn": getattr(f, "__name__", str(f)), "nargs": int(len(a)), "error": f"IndexError: {ex}"})
                        break
                    except Exception as ex:  # pylint: disable=broad-except
                        out["failures"].append({"id": e.id, "part": part, "fn": getattr(f, "__name__", str(f)), "nargs": int(len(a)), "error": f"{type(ex).__name__}: {ex}", "other": True})
                        break
        json.dump(out, open(sys.argv[2], "w"))
        return 0
    if mode == "e2e":
        cards_in = json.load(open(sys.argv[2]))
        res = []
        for c in cards_in:
            try:
                from yadism.esf import conv as _conv

                for k, val in (c.get("knobs") or {}).items():
                    setattr(_conv, k, val)
                o = run.run(c["theory"], c["obs"])
                item = {}
                for name in c["obs"]["observables"]:
                    item[name] = [{str(list(k)): np.asarray(v[0]).tolist() for k, v in r.orders.items()} for r in o[name]]
                res.append({"ok": True, "res": item})
            except Exception as ex:  # pylint: disable=broad-except
                res.append({"ok": False, "error": str(ex)[:300], "sig": getattr(ex, "sig", "")})
        json.dump(res, open(sys.argv[3], "w"))
        return 0
    return 2


if __name__ == "__main__":
    sys.exit(main())
