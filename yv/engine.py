"""Generic driver: replay tier -> generated tier (Hypothesis, sharded over processes) -> evidence.

A property module provides
    ID, RULE, ASSUMPTIONS, BUDGET = {tier: {"examples": n, "wall": seconds}}
    cases(tier)            Hypothesis strategy of JSON-serialisable case dicts
    check_case(case)       -> Verdict (pure function of case and code under test)
optionally
    MANDATORY = {tier: [label, ...]}   labels that must occur, else the run is inconclusive (exit 2)
    SHRINK = {tier: bool}
    enumerated(tier)       list of cases executed without Hypothesis (finite sub-spaces)
    warmup()               executed once in the parent before forking
    custom_worker(ctx)     replaces the default @given loop (stateful machines)
    abbreviate(case)       shorter form of a case for the evidence samples
"""

import dataclasses
import hashlib
import json
import multiprocessing
import os
import pathlib
import re
import subprocess
import sys
import time
import traceback

from . import env

HOME = env.HOME


# --------------------------------------------------------------------------- verdicts
@dataclasses.dataclass
class Failure:
    bucket: str
    detail: str = ""


@dataclasses.dataclass
class Verdict:
    failures: list = dataclasses.field(default_factory=list)
    nontrivial: bool = False
    labels: list = dataclasses.field(default_factory=list)
    rejected: bool = False  # input (legitimately) refused by the code: neither pass nor fail
    metrics: dict = dataclasses.field(default_factory=dict)  # name -> deviation/tolerance ratio

    def fail(self, bucket, detail=""):
        self.failures.append(Failure(bucket, str(detail)[:600]))

    def metric(self, name, value):
        try:
            value = float(value)
        except Exception:  # pylint: disable=broad-except
            return
        if value != value:  # NaN is recorded as inf so that it is visible
            value = float("inf")
        if value > self.metrics.get(name, -1.0):
            self.metrics[name] = value

    def label(self, *labels):
        for l in labels:
            if l not in self.labels:
                self.labels.append(l)


class YadismError(Exception):
    """An exception raised from inside the code under test (not from the harness)."""

    def __init__(self, exc):
        super().__init__(f"{type(exc).__name__}: {exc}")
        self.exc = exc
        self.type = type(exc).__name__
        self.msg = str(exc).splitlines()[0][:200] if str(exc) else ""
        self.frame, self.is_raise, self.in_yadism = innermost(exc)

    @property
    def sig(self):
        return f"{self.type}@{self.frame}"

    @property
    def explicit(self):
        """An explicit rejection: a `raise` statement (in the package or in LeProHQ/eko/adani below it)
        of an exception type that announces an unsupported or out-of-domain request."""
        return self.is_raise and self.type in ("ValueError", "NotImplementedError", "RuntimeError")


def innermost(exc):
    """(module.function of the innermost frame inside the tree under test or of the very last frame,
    whether that frame's failing line is a `raise` statement, whether it lies in yadism)."""
    tb = traceback.extract_tb(exc.__traceback__)
    src = str(env.SRC.resolve())
    last_y = None
    for fr in tb:
        try:
            fn = str(pathlib.Path(fr.filename).resolve())
        except Exception:  # pylint: disable=broad-except
            fn = fr.filename
        if fn.startswith(src):
            last_y = (fn, fr)
    if not tb:
        return "?", False, False
    last = tb[-1]
    last_is_raise = (last.line or "").lstrip().startswith("raise")
    if last_y is not None:
        fn, fr = last_y
        mod = fn[len(src) + 1 :].rsplit(".py", 1)[0].replace("/", ".")
        return f"{mod}.{fr.name}", last_is_raise, True
    fn = pathlib.Path(last.filename)
    return f"ext:{fn.parent.name}.{fn.stem}.{last.name}", last_is_raise, False


def guarded(fn, *a, **k):
    """Call into the code under test; any exception becomes a YadismError."""
    try:
        return fn(*a, **k)
    except Exception as e:  # pylint: disable=broad-except
        raise YadismError(e) from e


class Violation(Exception):
    pass


def case_hash(case):
    return hashlib.sha1(json.dumps(case, sort_keys=True, default=str).encode()).hexdigest()[:16]


# --------------------------------------------------------------------------- known findings
def load_known(prop_id):
    p = HOME / "known_findings.json"
    if not p.exists():
        return []
    entries = json.loads(p.read_text())
    return [e for e in entries if e.get("property") == prop_id and e.get("status") == "open"]


def match_known(known, bucket):
    for e in known:
        if re.fullmatch(e["bucket"], bucket):
            return e
    return None


# --------------------------------------------------------------------------- statistics
class Stats:
    def __init__(self):
        self.evaluations = 0
        self.nontrivial = set()
        self.labels = {}
        self.rejected = 0
        self.known_hits = {}
        self.violations = []  # dicts: bucket, detail, replay
        self.harness_errors = []
        self.metrics = {}
        self.samples = []
        self.skipped_budget = 0
        self.passes = 0

    def to_dict(self):
        d = dict(self.__dict__)
        d["nontrivial"] = sorted(self.nontrivial)
        return d

    def merge(self, d):
        self.evaluations += d["evaluations"]
        self.nontrivial.update(d["nontrivial"])
        for k, v in d["labels"].items():
            self.labels[k] = self.labels.get(k, 0) + v
        self.rejected += d["rejected"]
        for k, v in d["known_hits"].items():
            self.known_hits[k] = self.known_hits.get(k, 0) + v
        self.violations.extend(d["violations"])
        self.harness_errors.extend(d["harness_errors"])
        for k, v in d["metrics"].items():
            if v > self.metrics.get(k, -1.0):
                self.metrics[k] = v
        self.samples.extend(d["samples"])
        self.skipped_budget += d["skipped_budget"]
        self.passes += d["passes"]


class WorkerCtx:
    def __init__(self, mod, tier, seed, shard, nshards, examples, wall):
        self.mod = mod
        self.tier = tier
        self.seed = seed
        self.shard = shard
        self.nshards = nshards
        self.examples = examples
        self.deadline = time.time() + wall
        self.known = load_known(mod.ID)
        self.stats = Stats()
        self.reported = set()
        self.target_bucket = None
        self.last_fail = None
        self.use_hypothesis = True
        self.history = []  # every case this worker executed, in order (JSON text): the replay unit for state that leaks between cases

    @property
    def wseed(self):
        h = hashlib.sha256(f"{self.seed}:{self.mod.ID}:{self.shard}".encode()).hexdigest()
        return int(h[:8], 16)

    def out_of_time(self):
        return time.time() > self.deadline

    def verdict_of(self, case):
        self.history.append(json.dumps(case, default=str))
        try:
            v = self.mod.check_case(case)
        except YadismError as e:
            handler = getattr(self.mod, "on_yadism_error", None)
            v = handler(case, e) if handler else None
            if v is None and e.explicit and not getattr(self.mod, "REJECTION_IS_FAILURE", False):
                # the code refused the request explicitly: neither pass nor fail for a relational property
                v = Verdict(rejected=True)
                v.label(f"rejected:{e.sig}")
            if v is None:
                v = Verdict()
                v.fail(f"{self.mod.ID}:exception:{e.sig}", f"{e} on a generated-valid input")
        return v

    def process(self, case, raise_on_violation=True):
        """Run one case; update statistics; raise Violation for a new, unlisted failure."""
        if self.out_of_time():
            self.stats.skipped_budget += 1
            return None
        try:
            v = self.verdict_of(case)
        except Exception:  # pylint: disable=broad-except
            self.stats.harness_errors.append(traceback.format_exc()[-3000:])
            return None
        return self.account(case, v, raise_on_violation)

    def account(self, case, v, raise_on_violation=True):
        st = self.stats
        st.evaluations += 1
        h = case_hash(case)
        if v.rejected:
            st.rejected += 1
        if v.nontrivial and not v.rejected:
            st.nontrivial.add(h)
        for l in v.labels:
            st.labels[l] = st.labels.get(l, 0) + 1
        for k, val in v.metrics.items():
            if val > st.metrics.get(k, -1.0):
                st.metrics[k] = val
        # samples: per worker the first case and up to three non-trivial ones, tagged; finish() shows non-trivial ones first
        if (st.evaluations <= 1 and not st.samples) or (v.nontrivial and not v.rejected and sum(1 for x in st.samples if x["nontrivial"]) < 3):
            ab = getattr(self.mod, "abbreviate", None)
            st.samples.append({"nontrivial": bool(v.nontrivial and not v.rejected), "labels": sorted(set(v.labels))[:12], "case": ab(case) if ab else case})
        new = []
        for f in v.failures:
            e = match_known(self.known, f.bucket)
            if e is not None:
                st.known_hits[e["id"]] = st.known_hits.get(e["id"], 0) + 1
            elif f.bucket in self.reported:
                pass
            else:
                new.append(f)
        if new:
            if self.target_bucket is None:
                self.target_bucket = new[0].bucket
            hit = [f for f in new if f.bucket == self.target_bucket]
            if hit:
                self.last_fail = (case, hit[0], len(self.history) - 1)
                if raise_on_violation:
                    raise Violation(hit[0].bucket)
        return v

    def finish_failure(self):
        """Persist the (shrunk) failing case of the bucket that was being chased."""
        case, f, pos = self.last_fail
        d = HOME / "replays" / "_found"
        d.mkdir(parents=True, exist_ok=True)
        bh = hashlib.sha1(f.bucket.encode()).hexdigest()[:8]
        path = d / f"{self.mod.ID}-{bh}-s{self.seed}-w{self.shard}.json"
        doc = {"property": self.mod.ID, "bucket": f.bucket, "detail": f.detail, "case": case}
        path.write_text(json.dumps(doc, indent=1, default=str))
        # the replay file must be the reproducible unit: re-execute it in a fresh interpreter; if the failure does not come back,
        # it depends on state left behind by the cases this worker ran before - they are attached and replayed in order
        note = ""
        if os.environ.get("YV_NO_REPLAY_CONFIRM") != "1":
            try:
                rc = subprocess.run(
                    [sys.executable, "-m", "yv.main", self.mod.ID, "--replay", str(path)],
                    stdout=subprocess.DEVNULL, stderr=subprocess.DEVNULL, timeout=1200, env=dict(os.environ, YV_NO_REPLAY_CONFIRM="1"),
                ).returncode
            except Exception:  # pylint: disable=broad-except
                rc = None
            if rc == 0:
                doc["history"] = [json.loads(h) for h in self.history[:pos]]
                doc["history_note"] = (
                    "the case alone passes in a fresh process; it failed after the cases listed under 'history' had been executed "
                    "in the same process (state surviving from run to run); --replay executes them first, in order"
                )
                path.write_text(json.dumps(doc, indent=1, default=str))
                note = f" [passes alone in a fresh process: {len(doc['history'])} preceding cases of the worker attached to the replay file]"
        self.stats.violations.append({"bucket": f.bucket, "detail": f.detail + note, "replay": str(path)})
        self.reported.add(f.bucket)
        self.target_bucket = None
        self.last_fail = None


def default_worker(ctx):
    import hypothesis
    from hypothesis import HealthCheck, Phase, Verbosity, given, settings

    mod = ctx.mod
    shrink = getattr(mod, "SHRINK", {}).get(ctx.tier, ctx.tier == "thorough")
    phases = [Phase.generate] + ([Phase.shrink] if shrink else [])
    sett = settings(
        max_examples=max(1, ctx.examples),
        database=None,
        deadline=None,
        report_multiple_bugs=False,
        derandomize=False,
        phases=phases,
        verbosity=Verbosity.quiet,
        suppress_health_check=[
            HealthCheck.too_slow,
            HealthCheck.data_too_large,
            HealthCheck.large_base_example,
        ],
    )

    for _ in range(5):  # each pass ends at the first new root cause; it is then excluded
        ctx.stats.passes += 1

        @hypothesis.seed(ctx.wseed)
        @sett
        @given(mod.cases(ctx.tier))
        def test(case):
            ctx.process(case)

        try:
            test()
        except Violation:
            ctx.finish_failure()
            continue
        break


def _run_worker(args):
    modname, tier, seed, shard, nshards, examples, wall, enum_cases = args
    import importlib

    mod = importlib.import_module(modname)
    ctx = WorkerCtx(mod, tier, seed, shard, nshards, examples, wall)
    try:
        # enumerated / replay part (no Hypothesis)
        for case in enum_cases:
            ctx.target_bucket = None
            try:
                ctx.process(case)
            except Violation:
                ctx.finish_failure()
        if examples > 0:
            worker = getattr(mod, "custom_worker", None) or default_worker
            worker(ctx)
    except Exception:  # pylint: disable=broad-except
        ctx.stats.harness_errors.append(traceback.format_exc()[-3000:])
    return ctx.stats.to_dict()


# --------------------------------------------------------------------------- top level
def load_replays(prop_id):
    d = HOME / "replays" / prop_id
    out = []
    if d.is_dir():
        for p in sorted(d.glob("*.json")):
            out.append((p, json.loads(p.read_text())["case"]))
    return out


def run_property(modname, tier, seed, workers=None):
    import importlib

    t0 = time.time()
    workers = workers or int(os.environ.get("YV_WORKERS", "16"))
    mod = importlib.import_module(modname)
    budget = mod.BUDGET[tier]
    if hasattr(mod, "warmup"):
        mod.warmup()

    replays = [c for _, c in load_replays(mod.ID)]
    enum = list(mod.enumerated(tier)) if hasattr(mod, "enumerated") else []
    fixed = replays + enum
    n = budget["examples"]
    nshards = max(1, min(workers, max(n, len(fixed))))
    per = [n // nshards + (1 if i < n % nshards else 0) for i in range(nshards)]
    jobs = [
        (modname, tier, seed, i, nshards, per[i], budget["wall"], fixed[i::nshards])
        for i in range(nshards)
    ]
    total = Stats()
    if nshards == 1:
        results = [_run_worker(jobs[0])]
    else:
        ctxmp = multiprocessing.get_context("fork")
        results = []
        # workers stop by themselves at the wall budget; the parent waits that long plus a grace period for the case in flight and
        # then gives up on workers that have not returned (seen once: a change under test left workers asleep on a lock for hours)
        deadline = time.time() + budget["wall"] + float(os.environ.get("YV_GRACE", "900"))
        pool = ctxmp.Pool(nshards)
        try:
            it = pool.imap_unordered(_run_worker, jobs, chunksize=1)
            for _ in jobs:
                try:
                    results.append(it.next(timeout=max(1.0, deadline - time.time())))
                except multiprocessing.TimeoutError:
                    total.harness_errors.append(
                        f"{len(jobs) - len(results)} of {len(jobs)} worker(s) did not return within the wall budget plus grace period and were terminated (hung case?)"
                    )
                    break
        finally:
            pool.terminate()
            pool.join()
    for r in results:
        total.merge(r)
    fuzz_info = run_fuzz_children(mod, modname, tier, seed, total)
    return finish(mod, tier, seed, total, time.time() - t0, len(replays), len(enum), fuzz_info)


def run_fuzz_children(mod, modname, tier, seed, total):
    """Extra coverage-guided driver (atheris) for modules that declare FUZZ = {tier: {"runs": n, "children": k}}."""
    cfg = getattr(mod, "FUZZ", {}).get(tier)
    if not cfg:
        return None
    import subprocess
    import tempfile

    try:
        sys.path.insert(0, str(HOME / ".deps"))
        import atheris  # noqa: F401  pylint: disable=unused-import
    except Exception as e:  # pylint: disable=broad-except
        return {"skipped": f"atheris not importable ({e}); run ./check --setup"}
    tmp = tempfile.mkdtemp(prefix="yv_fuzz_")
    procs = []
    for i in range(cfg.get("children", 4)):
        out = os.path.join(tmp, f"stats{i}.json")
        e = dict(os.environ)
        e["PYTHONPATH"] = e.get("PYTHONPATH", "") + os.pathsep + str(HOME / ".deps")
        procs.append((out, subprocess.Popen([sys.executable, "-m", "yv.fuzz", modname, str(int(seed) * 100 + i + 1), str(cfg["runs"]), out],
                                            cwd=str(HOME), env=e, stdout=subprocess.DEVNULL, stderr=subprocess.DEVNULL)))
    info = {"driver": "atheris/libFuzzer through hypothesis.fuzz_one_input", "children": len(procs), "runs_per_child": cfg["runs"], "executions": 0}
    for out, pr in procs:
        try:
            pr.wait(timeout=cfg.get("wall", 1800))
        except subprocess.TimeoutExpired:
            pr.kill()
        if os.path.exists(out):
            d = json.load(open(out))
            info["executions"] += d.pop("fuzz_executions", 0)
            d.pop("fuzz_wall_s", None)
            d["labels"]["driver:atheris"] = d["evaluations"]
            total.merge(d)
    import shutil

    shutil.rmtree(tmp, ignore_errors=True)
    if info["executions"] == 0:
        # the driver ran and decoded nothing (seen once: every fuzz input overran because of a library bug in the byte decoder):
        # a silent zero would read as coverage that was never there
        total.harness_errors.append("coverage-guided driver: 0 executions in all children")
    return info


def finish(mod, tier, seed, total, wall, n_replays, n_enum, fuzz_info=None):
    known = load_known(mod.ID)
    lines = []
    for e in known:
        if total.known_hits.get(e["id"], 0) > 0:
            lines.append(f"KNOWN-FINDING: property={mod.ID} {e['what']}")
    # one line per root cause (bucket)
    seen = set()
    viol_lines = []
    for v in total.violations:
        if v["bucket"] in seen:
            continue
        seen.add(v["bucket"])
        viol_lines.append(f"VIOLATION property={mod.ID} replay={v['replay']}")
        viol_lines.append(f"  bucket={v['bucket']} :: {v['detail']}")
    mandatory = getattr(mod, "MANDATORY", {}).get(tier, [])
    missing = [l for l in mandatory if total.labels.get(l, 0) == 0]
    budget = mod.BUDGET[tier]
    min_eval = budget.get("min_evaluations", max(1, (budget["examples"] + n_replays + n_enum) // 10))
    inconclusive = []
    if total.harness_errors:
        inconclusive.append(f"{len(total.harness_errors)} harness error(s)")
    if missing:
        inconclusive.append(f"mandatory label(s) never produced: {missing}")
    if total.evaluations < min_eval:
        inconclusive.append(
            f"only {total.evaluations} evaluations (< {min_eval}); {total.skipped_budget} skipped on wall budget"
        )
    # non-trivial cases first, spread over the workers (every 4th entry of the concatenated per-worker lists), one trivial one kept
    nt = [x for x in total.samples if x.get("nontrivial")]
    tr = [x for x in total.samples if not x.get("nontrivial")]
    samples, seen_s = [], set()
    for x in nt[::4] + nt:
        key = json.dumps(x, sort_keys=True, default=str)
        if key not in seen_s and len(samples) < 7:
            seen_s.add(key)
            samples.append(x)
    samples += tr[:1]
    ev = {
        "property_id": mod.ID,
        "tier": tier,
        "seed": int(seed),
        "level": "exploration",
        "coverage": {
            "evaluations": total.evaluations,
            "distinct_nontrivial": len(total.nontrivial),
            "rule": mod.RULE,
            "samples": samples,
            "exhaustive": False,
            "replay_cases": n_replays,
            "enumerated_cases": n_enum,
            "generated_budget": budget["examples"],
            "labels": dict(sorted(total.labels.items())),
            "mandatory_labels": mandatory,
            "rejected_by_code": total.rejected,
            "known_finding_hits": total.known_hits,
            "max_deviation_over_tolerance": {k: float(f"{v:.3e}") for k, v in sorted(total.metrics.items())},
            "skipped_on_wall_budget": total.skipped_budget,
            "hypothesis_passes": total.passes,
            "inconclusive": inconclusive,
            "violation_buckets": sorted(seen),
            "tree": env.TREE,
        },
        "assumptions": list(getattr(mod, "ASSUMPTIONS", [])),
        "wall_s": round(wall, 2),
        "violations": len(seen),
    }
    if fuzz_info:
        ev["coverage"]["coverage_guided_fuzzing"] = fuzz_info
    extra = getattr(mod, "evidence_extra", None)
    if extra:
        ev["coverage"].update(extra(tier))
    evdir = HOME / "evidence"
    evdir.mkdir(exist_ok=True)
    (evdir / f"{mod.ID}.json").write_text(json.dumps(ev, indent=1, default=str) + "\n")
    for l in lines:
        print(l)
    for l in viol_lines:
        print(l)
    print(
        f"[{mod.ID} {tier} seed={seed}] evaluations={total.evaluations} nontrivial={len(total.nontrivial)} "
        f"rejected={total.rejected} known_hits={sum(total.known_hits.values())} violations={len(seen)} "
        f"wall={wall:.1f}s"
    )
    if seen:
        return 1
    if inconclusive:
        for e in total.harness_errors[:3]:
            print("HARNESS-ERROR:\n" + e, file=sys.stderr)
        print(f"INCONCLUSIVE property={mod.ID}: " + "; ".join(inconclusive))
        return 2
    return 0


def replay_one(modname, path):
    import importlib

    mod = importlib.import_module(modname)
    if hasattr(mod, "warmup"):
        mod.warmup()
    doc = json.loads(pathlib.Path(path).read_text())
    case = doc["case"]
    ctx = WorkerCtx(mod, "quick", 0, 0, 1, 0, 3600)
    for h in doc.get("history", []):
        # state-dependent failure: bring the process into the state the worker was in (verdicts of these cases do not matter here)
        try:
            ctx.verdict_of(h)
        except Exception:  # pylint: disable=broad-except
            pass
    try:
        v = ctx.verdict_of(case)
    except Exception:  # pylint: disable=broad-except
        traceback.print_exc()
        return 2
    rc = 0
    for f in v.failures:
        e = match_known(ctx.known, f.bucket)
        if e is not None:
            print(f"KNOWN-FINDING: property={mod.ID} {e['what']}")
        else:
            print(f"VIOLATION property={mod.ID} replay={path}")
            print(f"  bucket={f.bucket} :: {f.detail}")
            rc = 1
    if rc == 0:
        print(f"[{mod.ID} replay] ok labels={v.labels} metrics={v.metrics} rejected={v.rejected}")
    return rc
