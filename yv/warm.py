"""Import every module of the package under test once (compiles/caches all njit kernels, which carry
explicit signatures and are therefore compiled at import) so that forked workers inherit them."""

import importlib
import pkgutil
import sys
import time
import warnings

_done = {}


def import_all(verbose=False):
    if _done:
        return _done
    t0 = time.time()
    import yadism

    failed = {}
    mods = []
    with warnings.catch_warnings():
        warnings.simplefilter("ignore")
        for m in pkgutil.walk_packages(yadism.__path__, "yadism."):
            try:
                mods.append(importlib.import_module(m.name))
            except Exception as e:  # pylint: disable=broad-except
                failed[m.name] = f"{type(e).__name__}: {e}"
    _done["modules"] = mods
    _done["failed"] = failed
    if verbose:
        print(f"imported {len(mods)} modules in {time.time()-t0:.1f}s; failed: {failed}", file=sys.stderr)
    return _done


def tiny_run():
    """One small NLO run so that eko's interpolation kernels are compiled as well."""
    from . import cards, run

    th = cards.theory(PTO=1)
    ob = cards.observables(observables={"F2_total": [{"x": 0.1, "Q2": 10.0}]})
    run.run(th, ob)
