"""Independent convolution engine: I_j = int reg(z) p_j(c/z) dz/z + int sing(z)[p_j(c/z)/z - p_j(c)] dz + loc(c) p_j(c).

Computed in the variable u = c/z (integration variable ln u), piecewise between consecutive grid nodes (break points
correct by construction),
with p_j from yv.basis (own Lagrange blocks) and scipy quad per piece. Nothing is taken from yadism.esf.conv or
from eko's areas.
"""

import math
import warnings

import numpy as np
from scipy.integrate import quad


def _f(fn, args):
    return lambda z: float(np.asarray(fn(z, args)).reshape(-1)[0])


def convolve(rsl, basis, c, epsrel=1e-10, zbreaks=(), derive_loc=False):
    """returns (I[j], S[j]) for all basis functions; S = sum of absolute piece contributions"""
    n = basis.n
    val = np.zeros(n)
    sca = np.zeros(n)
    if c >= 1.0:
        return val, sca
    pc = basis.all_p(c)
    reg = _f(rsl.reg, rsl.args["reg"]) if rsl.reg is not None else None
    sing = _f(rsl.sing, rsl.args["sing"]) if rsl.sing is not None else None
    # u-pieces: [c, next node], ..., [x_{n-2}, 1]
    nodes = [x for x in basis.x if x > c]
    # additional break points given in z (kinks of the kernel, e.g. partonic thresholds) -> u = c/z
    extra = [c / z for z in zbreaks if 0.0 < z < 1.0 and c < c / z < 1.0]
    edges = sorted(set([c] + nodes + extra))
    if edges[-1] != 1.0:
        edges.append(1.0)
    with warnings.catch_warnings():
        warnings.simplefilter("ignore")
        for lo, hi in zip(edges[:-1], edges[1:]):
            if hi <= lo:
                continue
            mid = 0.5 * (lo + hi)
            i = basis.interval(mid)
            a, b = basis.blocks[i]
            # sub-pieces graded towards u -> c (z -> 1) where the integrand has integrable log singularities
            subs = [(lo, hi)]
            if lo == c:
                w = hi - lo
                cuts = [lo, lo + w * 1e-6, lo + w * 1e-3, lo + w * 0.05, hi]
                subs = list(zip(cuts[:-1], cuts[1:]))
            for j in range(n):
                inblock = a <= j <= b
                if not inblock and (sing is None or pc[j] == 0.0):
                    continue
                tj = basis.t[j]

                def pj(u, j=j, a=a, b=b, inblock=inblock):
                    if not inblock:
                        return 0.0
                    tt = math.log(u) if basis.log else u
                    num = den = 1.0
                    for k in range(a, b + 1):
                        if k != j:
                            num *= tt - basis.t[k]
                            den *= basis.t[j] - basis.t[k]
                    return num / den

                def integrand(u, j=j, pj=pj):
                    z = min(c / u, 1.0 - 1e-15)  # quadrature nodes may round onto the end point
                    r = 0.0
                    p = pj(u)
                    if reg is not None and p != 0.0:
                        r += reg(z) * p / u
                    if sing is not None:
                        r += sing(z) * (p * u / c - pc[j]) * c / (u * u)
                    return r

                # integrate in t = ln u: pieces of a linear-mode grid can span decades in u, where the measure du/u
                # concentrates the integrand at the lower end (found by a C01 false alarm, DESIGN section 5)
                def integrand_t(t, integrand=integrand):
                    u = math.exp(t)
                    return integrand(u) * u

                for s_lo, s_hi in subs:
                    v = quad(integrand_t, math.log(s_lo), math.log(s_hi), epsabs=0.0, epsrel=epsrel, limit=200)[0]
                    val[j] += v
                    sca[j] += abs(v)
    if rsl.loc is not None and derive_loc and sing is not None:
        # do not trust the x-dependence of the local part: rebuild it from the contract loc(x) = delta - int_0^x sing
        # anchor at x0 -> 0 (some hand-written local parts contain ln(x) and are NaN at exactly 0)
        x0 = 1e-12
        lc = float(np.asarray(rsl.loc(x0, rsl.args["loc"])).reshape(-1)[0])
        cuts = [x0] + [t for t in (1e-9, 1e-6, 1e-3, 0.5, 0.9, 0.99, 0.9999) if x0 < t < c] + [c]
        with warnings.catch_warnings():
            warnings.simplefilter("ignore")
            for lo, hi in zip(cuts[:-1], cuts[1:]):
                lc -= quad(sing, lo, hi, epsabs=0.0, epsrel=1e-11, limit=200)[0]
        val += lc * pc
        sca += abs(lc * pc)
    elif rsl.loc is not None:
        lc = float(np.asarray(rsl.loc(c, rsl.args["loc"])).reshape(-1)[0])
        val += lc * pc
        sca += abs(lc * pc)
    return val, sca
