"""Calling the code under test."""

import copy
import warnings

import numpy as np

from .engine import YadismError, guarded

_silenced = False


def _silence():
    global _silenced  # pylint: disable=global-statement
    if _silenced:
        return
    import logging

    from yadism import log

    log.silent_mode = True
    logging.getLogger("yadism").setLevel(logging.CRITICAL)
    logging.getLogger("eko").setLevel(logging.CRITICAL)
    _silenced = True


def run(theory, obs):
    """run_yadism on deep copies of the cards; exceptions become YadismError."""
    _silence()
    import yadism

    t, o = copy.deepcopy(theory), copy.deepcopy(obs)
    with warnings.catch_warnings():
        warnings.simplefilter("ignore")
        return guarded(yadism.run_yadism, t, o)


def runner(theory, obs):
    _silence()
    from yadism.runner import Runner

    with warnings.catch_warnings():
        warnings.simplefilter("ignore")
        return guarded(Runner, theory, obs)


def tensors(res):
    """order key -> values array of one ESFResult/EXSResult."""
    return {k: np.asarray(v[0], dtype=float) for k, v in res.orders.items()}


def errors(res):
    return {k: np.asarray(v[1], dtype=float) for k, v in res.orders.items()}


PIDS = [22, -6, -5, -4, -3, -2, -1, 21, 1, 2, 3, 4, 5, 6]
ROW = {p: i for i, p in enumerate(PIDS)}


def bitwise_equal_res(a, b, with_errors=True):
    """Bitwise equality of two ESFResults (keys and their order, values, errors, kinematics)."""
    if list(a.orders.keys()) != list(b.orders.keys()):
        return False, "order keys differ"
    for k in a.orders:
        if not np.array_equal(np.asarray(a.orders[k][0]), np.asarray(b.orders[k][0]), equal_nan=True):
            return False, f"values differ at {k}"
        if with_errors and not np.array_equal(
            np.asarray(a.orders[k][1]), np.asarray(b.orders[k][1]), equal_nan=True
        ):
            return False, f"errors differ at {k}"
    return True, ""


def maxabs(a):
    a = np.asarray(a)
    return float(np.max(np.abs(a))) if a.size else 0.0


def noise_floor(*tensor_dicts):
    """Absolute tolerance floor for relations between tensors: 1e-12 of the largest entry of any order key of the results
    involved (1e-13 until session 3: a key that is the residue of a cancellation among operator products with entries of 1e2-1e3 -
    the (2,0,0,2) key of a CC top observable below threshold, 1.4e-13 next to neighbours of 0.9 - differed by 1.9e-13 of the largest
    entry between a target run and the rotated proton run). A key whose entries are themselves rounding residue of a cancellation (1e-16 of the neighbouring keys) must not be
    judged relative to its own size."""
    m = 0.0
    for d in tensor_dicts:
        for t in d.values():
            m = max(m, maxabs(t))
    return 1e-12 * m + 1e-300
