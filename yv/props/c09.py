"""C09 - heavy-quark production respects its kinematic thresholds (boundary-value generation, exact zeros)."""

import math
import warnings

import numpy as np
from hypothesis import strategies as st

from .. import basis, cards, catalogue, configs, run
from ..engine import Verdict
from . import c02

ID = "C09"
RULE = (
    "Hypothesis draws (x, Q2, m) relative to the thresholds: NC pair production with Q2(1-x)/x = 4m2(1+d), d in {0 (exactly "
    "representable set-up x=0.5, dyadic m), +-1 ulp, +-1e-9, +-1e-6, +-0.1, generic}; partonic z = zmax(1+d) with zmax = 1/(1+4m2/Q2); "
    "CC with chi = x(1+m2/Q2) = 1+d likewise. Oracles: (kernel) every regular part of the harvested massive NC kernels (gluon, "
    "singlet, missing non-singlet; orders 1-3; F2, FL, g1) is exactly 0 for z >= zmax; (nc) in FFNS/FONLL-FFNS runs of F_h (h "
    "massive) the gluon and light-quark rows are exactly 0 at or below the hadronic threshold, and above it they vanish for "
    "every basis function whose support lies entirely below x/zmax; (cc) for CC F_h the light-quark and gluon rows are exactly "
    "0 for chi >= 1 and below it the LO rows equal chi*w*pref*p_j(chi) with CKM weights, slow-rescaling prefactors (1, 1-lambda, "
    "lambda for F2, FL, xF3) and the reference basis; (missing) FFNS/FONLL-FFNS F_light at NNLO, x=0.5, Q2 = 4 mc^2 (1+d) with d<=0: "
    "bitwise the result of the same card with all heavy masses x1024 (the heavy-quark loop corrections on the light line vanish "
    "below the pair threshold). Non-trivial = |d| <= 1e-6 (within 1e-6 of a threshold)."
)
ASSUMPTIONS = [
    "the exact-threshold class uses x=0.5 and dyadic masses so that Q2(1-x)/x and 4m2 are equal as floats; for |d| below 1e-12 "
    "(other set-ups) nothing is asserted about the side, because the comparison is decided by rounding",
    "rows of the heavy quark itself (intrinsic contributions, not subject to the pair threshold) are not asserted",
]
BUDGET = {"quick": {"examples": 2400, "wall": 420}, "thorough": {"examples": 150000, "wall": 2400}}
MANDATORY = {
    t: ["nontrivial", "clause:kernel", "clause:nc", "clause:cc", "clause:missing", "side:at", "side:below", "side:above", "delta:ulp", "delta:1e-6", "order:2", "cc:lo-row", "nc:support"]
    for t in ("quick", "thorough")
}
SHRINK = {"quick": False, "thorough": True}
abbreviate = configs.abbreviate
HVQ = {"charm": (4, "mc"), "bottom": (5, "mb"), "top": (6, "mt")}

_HEAVY = None


def heavy_entries():
    global _HEAVY  # pylint: disable=global-statement
    if _HEAVY is None:
        entries, _ = catalogue.build()
        _HEAVY = [e for e in entries if e.family == "heavy" and e.meta.get("process") != "CC" and e.rsl.reg is not None]
        if len(_HEAVY) < 50:
            raise RuntimeError("too few massive NC kernels harvested")
    return _HEAVY


def deltas():
    return st.sampled_from(["0", "+ulp", "-ulp", "+1e-9", "-1e-9", "+1e-6", "-1e-6", "+0.1", "-0.1", "+gen", "-gen"])


def apply_delta(value, d, gen):
    """value*(1+d) for the symbolic delta d"""
    if d == "0":
        return value
    if d.endswith("ulp"):
        return math.nextafter(value, math.inf if d[0] == "+" else 0.0)
    mag = gen if d.endswith("gen") else float(d[1:])
    return value * (1 + mag) if d[0] == "+" else value * (1 - mag)


@st.composite
def cases(draw, tier="quick"):
    clause = draw(st.sampled_from(["kernel", "nc", "nc", "cc", "cc", "missing"]))
    d = draw(deltas())
    gen = round(draw(st.floats(0.01, 0.9)), 4)
    if clause == "kernel":
        n = len(heavy_entries())
        return {"clause": clause, "entry": draw(st.integers(0, n - 1)), "delta": d, "gen": gen}
    if clause == "missing":
        # F_light in FFNS at NNLO = massless part + 'missing' heavy-quark loops on the light-quark line: at or below the pair
        # threshold of the lightest massive quark the result must be that of a card whose massive quarks are out of reach
        m = draw(st.integers(4, 40)) / 4.0
        d = draw(st.sampled_from(["0", "-ulp", "-1e-9", "-1e-6", "-0.1", "-gen"]))
        kind = draw(st.sampled_from(["F2", "FL", "F3", "g1"]))
        th = cards.theory(FNS=draw(st.sampled_from(["FFNS", "FONLL-FFNS"])), NfFF=3, PTO=2, mc=m, mb=2 * m, mt=4 * m)
        grid = draw(cards.grids(nmin=5, nmax=8, umin=1.5, umax=3.0))
        ob = cards.observables(prDIS=draw(st.sampled_from(["NC", "EM"])))
        cards.apply_grid(ob, grid)
        x = 0.5
        q2 = apply_delta(4.0 * m * m * x / (1.0 - x), d, gen)
        name = f"{kind}_light"
        ob["observables"] = {name: [{"x": x, "Q2": q2}]}
        return {"clause": clause, "theory": th, "obs": ob, "delta": d, "gen": gen, "h": "charm", "m": m,
                "meta": {"name": name, "kind": kind, "scheme": th["FNS"], "process": ob["prDIS"], "pto": 2, "heavyness": "light"}}
    h = draw(st.sampled_from(["charm", "bottom", "top"]))
    nfff = draw(st.integers(3, HVQ[h][0] - 1))
    scheme = draw(st.sampled_from(["FFNS", "FONLL-FFNS"]))
    if scheme == "FONLL-FFNS":
        nfff = HVQ[h][0] - 1  # the only massive flavour of a FONLL run
    m = draw(st.integers(4, 60)) / 4.0  # dyadic
    th = cards.theory(FNS=scheme, NfFF=nfff, PTO=draw(st.integers(0, 2)))
    th.update({"mc": 1.25, "mb": 4.5, "mt": 170.0})
    th[HVQ[h][1]] = m
    # keep the masses ordered
    ms = sorted([th["mc"], th["mb"], th["mt"]])
    if [th["mc"], th["mb"], th["mt"]] != ms or len(set(ms)) < 3:
        th.update({"mc": 1.25, "mb": 4.5, "mt": 170.0})
        m = th[HVQ[h][1]]
    grid = draw(cards.grids(nmin=5, nmax=9, umin=1.5, umax=3.0))
    ob = cards.observables()
    cards.apply_grid(ob, grid)
    kind = draw(st.sampled_from(["F2", "FL", "F3"] if clause == "cc" else ["F2", "FL", "g1"]))
    if clause == "nc":
        ob["prDIS"] = draw(st.sampled_from(["NC", "EM"]))
        exact = d in ("0", "+ulp", "-ulp")
        x = 0.5 if exact else draw(cards.x_in_grid(grid, classes=["interior", "node"]))[0]
        x = min(max(x, grid["xgrid"][0] * 1.01), 0.95)
        q2thr = 4.0 * m * m * x / (1.0 - x)  # exact for x=0.5
        q2 = apply_delta(q2thr, d, gen)
        if kind == "g1" and th["PTO"] > 1:
            th["PTO"] = 1
    else:
        ob["prDIS"] = "CC"
        ob["ProjectileDIS"] = draw(st.sampled_from(cards.PROJECTILES))
        th["CKM"] = draw(cards.ckm())
        th["PTO"] = min(th["PTO"], 1)
        q2 = draw(cards.q2_values(1.0, 1e4))
        chi = apply_delta(1.0, d, gen)
        x = chi / (1.0 + m * m / q2)
        if x <= grid["xgrid"][0] * 1.01:
            q2 = 100.0 * m * m
            x = chi / (1.0 + m * m / q2)
    name = f"{kind}_{h}"
    ob["observables"] = {name: [{"x": x, "Q2": q2}]}
    return {"clause": clause, "theory": th, "obs": ob, "delta": d, "gen": gen, "h": h, "m": m,
            "meta": {"name": name, "kind": kind, "scheme": scheme, "process": ob["prDIS"], "pto": th["PTO"], "heavyness": h}}


def side(d):
    return "at" if d == "0" else ("above" if d[0] == "+" else "below")


def check_case(case):
    v = Verdict()
    cl, d = case["clause"], case["delta"]
    v.label(f"clause:{cl}", f"side:{side(d)}")
    if d.endswith("ulp"):
        v.label("delta:ulp")
    if d.endswith("1e-6"):
        v.label("delta:1e-6")
    v.nontrivial = d in ("0", "+ulp", "-ulp", "+1e-9", "-1e-9", "+1e-6", "-1e-6")
    with warnings.catch_warnings(), np.errstate(all="ignore"):
        warnings.simplefilter("ignore")
        if cl == "kernel":
            e = heavy_entries()[case["entry"]]
            v.label(f"order:{e.meta['order']}")
            q2, m2 = e.meta["q2"], e.meta["m2"]
            zmax = 1.0 / (1.0 + 4.0 * m2 / q2)
            # beyond (or within rounding of) the partonic threshold
            dd = d if d[0] == "+" else "+" + d[1:] if d != "0" else "+1e-9"
            if dd == "+ulp":
                dd = "+1e-9"  # zmax itself is rounded: one ulp does not decide the side
            z = min(apply_delta(zmax, dd, case["gen"]), 1.0 - 1e-12)
            if z > zmax * (1 + 1e-12):
                val = e.rsl.reg(z, e.rsl.args["reg"])
                if float(np.asarray(val).reshape(-1)[0]) != 0.0:
                    v.fail(f"C09:kernel-beyond-threshold:{e.id.split(':nf')[0]}", f"{e.id}: reg({z!r}) = {val!r} beyond zmax = {zmax!r}")
            return v
        th, ob, meta = case["theory"], case["obs"], case["meta"]
        name, h = meta["name"], case["h"]
        if cl == "missing":
            v.label("order:2")
            far = dict(th, mc=th["mc"] * 1024.0, mb=th["mb"] * 1024.0, mt=th["mt"] * 1024.0)
            ra = run.tensors(run.run(th, ob)[name][0])
            rb = run.tensors(run.run(far, ob)[name][0])
            for k in ra:
                if not np.array_equal(ra[k], rb[k]):
                    v.fail(f"C09:missing-below-threshold:{meta['kind']}", f"{name} ({meta['scheme']}) at x=0.5, Q2={ob['observables'][name][0]['Q2']!r}, mc={th['mc']}: at/below the charm pair threshold key {k} differs from the run with unreachable heavy quarks by {run.maxabs(ra[k]-rb[k]):.3e}")
            if v.nontrivial:
                v.label("nontrivial")
            return v
        hq = HVQ[h][0]
        kin = ob["observables"][name][0]
        x, q2, m = kin["x"], kin["Q2"], case["m"]
        b = basis.Basis(ob["interpolation_xgrid"], ob["interpolation_polynomial_degree"], ob["interpolation_is_log"])
        res = run.run(th, ob)[name][0]
        ts = run.tensors(res)
        rows = [i for i, p in enumerate(run.PIDS) if abs(p) != hq and p != 22]
        v.label(f"order:{th['PTO']}")
        if cl == "nc":
            lhs, rhs = q2 * (1.0 - x) / x, 4.0 * m * m
            decided = abs(lhs - rhs) > 1e-12 * rhs or (x == 0.5)
            if decided and lhs <= rhs:
                for k, t in ts.items():
                    if np.any(t[rows] != 0.0):
                        v.fail(f"C09:nc-below-hadronic-threshold:{meta['kind']}", f"{name} ({meta['scheme']}) at x={x!r}, Q2={q2!r}, m={m}: Q2(1-x)/x={lhs!r} <= 4m2={rhs!r} but key {k} has non-zero light-parton entries (max {np.max(np.abs(t[rows])):.3e})")
            elif decided:
                zmax = 1.0 / (1.0 + 4.0 * m * m / q2)
                umin = x / zmax
                dead = [j for j in range(b.n) if b.support_max(j) <= umin * (1 - 1e-12)]
                if dead:
                    v.label("nc:support")
                for k, t in ts.items():
                    if k[2] or k[3]:
                        continue
                    for j in dead:
                        if np.any(t[rows, j] != 0.0):
                            v.fail(f"C09:nc-beyond-partonic-threshold:{meta['kind']}", f"{name} at x={x!r}, Q2={q2!r}, m={m}: basis function {j} (support up to {b.support_max(j)!r}) lies below x/zmax={umin!r} but key {k} has a non-zero entry")
        else:
            chi = x * (1.0 + m * m / q2)
            if chi >= 1.0:
                for k, t in ts.items():
                    if np.any(t[rows] != 0.0):
                        v.fail(f"C09:cc-beyond-rescaling:{meta['kind']}", f"{name} at x={x!r}, Q2={q2!r}, m={m}: chi={chi!r} >= 1 but key {k} has non-zero entries (max {np.max(np.abs(t[rows])):.3e})")
            elif chi < 1.0 - 1e-9:
                v.label("cc:lo-row")
                lam = 1.0 / (1.0 + m * m / q2)
                pref = {"F2": 1.0, "FL": 1.0 - lam, "F3": lam}[meta["kind"]]
                v2 = c02.ckm2(th["CKM"])
                pairs = c02.cc_pairs(h, 6)
                wplus = ob["ProjectileDIS"] in ("neutrino", "positron")
                pv = meta["kind"] == "F3"
                exp = np.zeros_like(ts[(0, 0, 0, 0)])
                pj = b.all_p(chi)
                wmax = 0.0
                for q in range(1, th["NfFF"] + 1):
                    if q in c02.UP:
                        s = sum(v2[j, i] for (j, i) in pairs if c02.UP[j] == q)
                        quark_side = not wplus
                    else:
                        s = sum(v2[j, i] for (j, i) in pairs if c02.DOWN[i] == q)
                        quark_side = wplus
                    w = 2.0 * s
                    wmax = max(wmax, w)
                    row = run.ROW[q] if quark_side else run.ROW[-q]
                    exp[row] = chi * w * pref * pj * (1.0 if (quark_side or not pv) else -1.0)
                t = ts[(0, 0, 0, 0)]
                tol = 1e-8 * chi * max(wmax, 1e-300) * max(1.0, float(np.max(np.abs(pj))))
                dlt = float(np.max(np.abs(t[rows] - exp[rows])))
                v.metric("cc-lo-row", dlt / (tol + 1e-300))
                if not dlt <= tol:
                    v.fail(f"C09:cc-lo-row:{meta['kind']}", f"{name} ({ob['ProjectileDIS']}) at x={x!r}, Q2={q2!r}, m={m}: LO rows differ from chi*w*pref*p_j(chi), chi={chi!r}: |d|={dlt:.3e}")
    if v.nontrivial:
        v.label("nontrivial")
    return v


def warmup():
    from .. import warm

    warm.import_all()
    warm.tiny_run()
    heavy_entries()
