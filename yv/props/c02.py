"""C02 - LO parton model with PDG electroweak / CKM weights (reference model typed from scratch)."""

import numpy as np
from hypothesis import strategies as st

from .. import basis, cards, configs, run
from ..engine import Verdict

ID = "C02"
RULE = (
    "Hypothesis draws sin2theta_W in (0.02,0.98), MZ, MW, polarisation in [-1,1], propagator correction, "
    "projectile, process EM/NC/CC, CKM (9 generated magnitudes in string or list syntax, or the default), "
    "scheme/heavyness where LO is a massless parton-model quantity (ZM-VFNS total/light/charm/bottom/top "
    "with nf from generated thresholds, FFNS/FFN0 light with NfFF), kind (six), target, grid, x on/off a node, "
    "Q2 in [0.5,1e6]; PTO=0. Oracle: O[(0,0,0,0)][q,j] = x*w_q*p_j(x) with w_q from PDG formulas typed "
    "independently (charges, T3, gV, gA, eta_gammaZ, lepton helicity/charge signs, CKM block by heavyness) "
    "and p_j from the reference basis (Kronecker delta at a node); all other rows zero. Non-trivial = "
    "Z or W actually contributes (eta_gammaZ>1e-3 with process NC, or CC) and the expected tensor is non-zero."
)
ASSUMPTIONS = [
    "neutrino beams are generated with polarisation 0 only (the card's polarisation describes a charged lepton)",
    "eta_gammaZ = Q2/(Q2+MZ^2)/(4 s^2 c^2)/(1-Delta) as documented in coupling_constants.propagator_factor",
    "the basis function value (Kronecker delta on a node) is compared with an independent Lagrange evaluation to 1e-8 "
    "of x*max|w|*max|p_j|: eko evaluates monomial coefficients in ln x, which lose digits on wide log grids "
    "(measured up to 1.2e-10 on a node), so 'exactly a Kronecker delta' is asserted up to that trusted rounding",
    "FFNS/FFN0 total and heavy observables are not in the domain (intrinsic heavy-quark rows are not a massless "
    "parton-model quantity); CC heavy is covered by C09",
]
BUDGET = {"quick": {"examples": 6000, "wall": 300}, "thorough": {"examples": 400000, "wall": 2400}}
MANDATORY = {
    t: ["nontrivial", "polarised-beam", "antiparticle", "ckm:generated", "node", "offnode", "nf:3", "nf:4", "nf:5", "nf:6",
        "process:EM", "process:NC", "process:CC", "heavylight", "target:ZA"]
    + [f"kind:{k}" for k in cards.SFS]
    for t in ("quick", "thorough")
}
SHRINK = {"quick": True, "thorough": True}
abbreviate = configs.abbreviate

UP, DOWN = (2, 4, 6), (1, 3, 5)


def ckm2(ckm):
    vals = [float(v) for v in ckm.split(" ")] if isinstance(ckm, str) else [float(v) for v in ckm]
    return np.array(vals).reshape(3, 3) ** 2  # rows u,c,t ; columns d,s,b


def cc_pairs(heavyness, nf):
    """CKM elements (up-type index, down-type index) that belong to the observable (fns.rst colouring)."""
    if heavyness in ("total", "light"):
        return [(j, i) for j in range(3) for i in range(3) if UP[j] <= nf and DOWN[i] <= nf]
    if heavyness == "charm":
        return [(1, 0), (1, 1)]
    if heavyness == "bottom":
        return [(0, 2), (1, 2)]
    return [(2, 0), (2, 1), (2, 2)]


def weights(case, q2, nf):
    """pid -> LO weight (quarks and antiquarks), typed from the PDG review."""
    th, ob, meta = case["theory"], case["obs"], case["meta"]
    kind, process, heavyness = meta["kind"], meta["process"], meta["heavyness"]
    proj = ob["ProjectileDIS"]
    pv = kind in ("F3", "gL", "g4")
    w = {}
    if kind in ("FL", "gL"):
        return w  # Callan-Gross: no LO term
    active = range(1, nf + 1)
    if heavyness in cards.HEAVY:
        hq = 4 + cards.HEAVY.index(heavyness)
        if hq > nf:
            return w
    if process == "CC":
        v2 = ckm2(th["CKM"])
        wplus = proj in ("neutrino", "positron")  # W+ exchanged: hits d-type quarks and u-type antiquarks
        pairs = cc_pairs(heavyness, nf)
        for q in active:
            if q in UP:
                s = sum(v2[j, i] for (j, i) in pairs if UP[j] == q)
                quark_side = not wplus
            else:
                s = sum(v2[j, i] for (j, i) in pairs if DOWN[i] == q)
                quark_side = wplus
            wq = 2.0 * s
            if quark_side:
                w[q] = wq
            else:
                w[-q] = -wq if pv else wq
        return w
    s2 = th["SIN2TW"]
    eta = 0.0
    if process == "NC":
        eta = q2 / (q2 + th["MZ"] ** 2) / (4.0 * s2 * (1.0 - s2)) / (1.0 - ob["PropagatorCorrection"])
    if proj in ("electron", "positron"):
        el, t3l = -1.0, -0.5
    else:
        el, t3l = 0.0, 0.5
    gvl, gal = t3l - 2.0 * el * s2, t3l
    lam = ob["PolarizationDIS"] * (1.0 if proj in ("positron", "antineutrino") else -1.0)
    for q in active:
        if heavyness in cards.HEAVY and q != hq:
            continue
        eq, t3q = (2.0 / 3.0, 0.5) if q in UP else (-1.0 / 3.0, -0.5)
        gvq, gaq = t3q - 2.0 * eq * s2, t3q
        if not pv:
            wq = (
                el * el * eq * eq
                + 2.0 * el * eq * gvq * (gvl + lam * gal) * eta
                + (gvl**2 + gal**2 + 2.0 * lam * gvl * gal) * (gvq**2 + gaq**2) * eta**2
            )
            w[q] = w[-q] = wq
        else:
            wq = 2.0 * el * eq * gaq * (gal + lam * gvl) * eta + (2.0 * gvl * gal + lam * (gvl**2 + gal**2)) * 2.0 * gvq * gaq * eta**2
            w[q], w[-q] = wq, -wq
    return w


@st.composite
def cases(draw, tier="quick"):
    scheme = draw(st.sampled_from(["ZM-VFNS", "ZM-VFNS", "ZM-VFNS", "FFNS", "FFN0"]))
    process = draw(st.sampled_from(["EM", "NC", "NC", "CC", "CC"]))
    kinds = cards.SFS if process != "CC" else cards.UNPOL
    kind = draw(st.sampled_from(kinds))
    heavyness = draw(st.sampled_from(configs.HEAVYNESS)) if scheme == "ZM-VFNS" else "light"
    grid = draw(cards.grids(nmax=10))
    th = cards.theory(PTO=0, FNS=scheme, NfFF=draw(st.integers(3, 5)))
    th.update(draw(cards.masses(dyadic=draw(st.booleans()))))
    th.update(draw(cards.ew_params()))
    if process == "CC":
        th["CKM"] = draw(cards.ckm())
    proj = draw(st.sampled_from(["electron", "positron"] if process == "EM" else cards.PROJECTILES))
    ob = cards.observables(prDIS=process, ProjectileDIS=proj)
    cards.apply_grid(ob, grid)
    if proj in ("electron", "positron") and draw(st.booleans()):
        ob["PolarizationDIS"] = round(draw(st.floats(-1.0, 1.0)), 4)
    if draw(st.booleans()):
        ob["PropagatorCorrection"] = round(draw(st.floats(-0.5, 0.5)), 4)
    tgt = draw(st.sampled_from(["proton", "proton", "ZA", "neutron"]))
    if tgt == "ZA":
        a = round(draw(st.floats(1.0, 240.0)), 3)
        tgt = {"Z": round(draw(st.floats(0.0, 1.0)) * a, 3), "A": a}
        if draw(st.booleans()):
            tgt = {"A": tgt["A"], "Z": tgt["Z"]}  # key order as after a YAML round trip
    ob["TargetDIS"] = tgt
    kins = []
    for _ in range(draw(st.integers(1, 3))):
        x, _cls = draw(cards.x_in_grid(grid, classes=["node", "node", "interior", "near_node", "above_xmin", "large"], allow_one=False))
        kins.append({"x": x, "Q2": draw(cards.q2_values(0.5, 1e6))})
    name = f"{kind}_{heavyness}"
    ob["observables"] = {name: kins}
    meta = {"kind": kind, "process": process, "scheme": scheme, "pto": 0, "heavyness": heavyness, "name": name}
    return {"theory": th, "obs": ob, "meta": meta}


def check_case(case):
    v = Verdict()
    th, ob, meta = case["theory"], case["obs"], case["meta"]
    name = meta["name"]
    b = basis.Basis(ob["interpolation_xgrid"], ob["interpolation_polynomial_degree"], ob["interpolation_is_log"])
    out = run.run(th, ob)
    tgt = ob["TargetDIS"]
    z, a = {"proton": (1.0, 1.0), "neutron": (0.0, 1.0)}.get(tgt, (None, None)) if isinstance(tgt, str) else (tgt["Z"], tgt["A"])
    v.label(f"kind:{meta['kind']}", f"process:{meta['process']}", f"scheme:{meta['scheme']}")
    if isinstance(tgt, dict):
        v.label("target:ZA")
    if ob["PolarizationDIS"] != 0:
        v.label("polarised-beam")
    if ob["ProjectileDIS"] in ("positron", "antineutrino"):
        v.label("antiparticle")
    if th["CKM"] != cards.CKM_STR:
        v.label("ckm:generated")
    nontrivial = False
    for kin, r in zip(ob["observables"][name], out[name]):
        x, q2 = kin["x"], kin["Q2"]
        nf = cards.nf_ref(th, q2)
        v.label(f"nf:{nf}")
        w = weights(case, q2, nf)
        if meta["heavyness"] in cards.HEAVY and w:
            v.label("heavylight")
        # isospin rotation of the expected weights
        for sgn in (1, -1):
            u, d = w.get(2 * sgn, 0.0), w.get(1 * sgn, 0.0)
            w[2 * sgn] = (z * u + (a - z) * d) / a
            w[1 * sgn] = (z * d + (a - z) * u) / a
        pj = b.all_p(x)
        onnode = x in b.x
        v.label("node" if onnode else "offnode")
        ts = run.tensors(r)
        if list(ts) != [(0, 0, 0, 0)]:
            v.fail("C02:keys", f"LO run returned order keys {list(ts)}")
            continue
        t = ts[(0, 0, 0, 0)]
        exp = np.zeros_like(t)
        for pid, wq in w.items():
            exp[run.ROW[pid]] = x * wq * pj
        wmax = max([abs(val) for val in w.values()] + [0.0])
        scale = x * wmax * max(1.0, float(np.max(np.abs(pj))))
        tol = 1e-8 * scale + 1e-300
        d = run.maxabs(t - exp)
        v.metric("lo-node" if onnode else "lo-offnode", d / tol)
        if not d <= tol:
            bad = np.unravel_index(np.argmax(np.abs(t - exp)), t.shape)
            v.fail(
                f"C02:weight:{meta['process']}:{meta['kind']}:{'pv' if meta['kind'] in ('F3','gL','g4') else 'pc'}",
                f"LO operator != x*w_q*p_j(x): |d|={d:.3e} tol {tol:.3e} at pid {run.PIDS[bad[0]]} node {bad[1]}: got {t[bad]:.12g} expected {exp[bad]:.12g} "
                f"(x={x}, Q2={q2}, nf={nf}, {ob['ProjectileDIS']}, pol={ob['PolarizationDIS']})",
            )
        if wmax > 0:
            if meta["process"] == "CC":
                nontrivial = True
            elif meta["process"] == "NC":
                s2 = th["SIN2TW"]
                eta = q2 / (q2 + th["MZ"] ** 2) / (4 * s2 * (1 - s2))
                nontrivial = nontrivial or eta > 1e-3
    v.nontrivial = nontrivial
    if nontrivial:
        v.label("nontrivial")
    return v


def warmup():
    from .. import warm

    warm.import_all()
    warm.tiny_run()
