"""C03 - every coefficient/splitting kernel is one well-defined distribution (RSL contract, catalogue x generated x)."""

import math
import warnings

import numpy as np
from hypothesis import strategies as st
from scipy.integrate import quad

from .. import catalogue
from ..engine import Verdict

ID = "C03"
RULE = (
    "The catalogue of RSL triples is harvested from the package (every coeff[order]() of every kernel that "
    "Combiner.collect_elems() returns over a lattice of kinds x processes x schemes x nf 3-6 x Q2/m2 ratios at the highest "
    "order, plus every splitting / convolved-splitting label for nf 3-6: ~2000 triples). Every triple is checked on fixed "
    "pairs and Hypothesis draws (triple, 0<x1<x2<1 log-dense towards both ends down to 1e-7 and up to 1-1e-9, evaluation "
    "points z). Oracle: loc(x2)-loc(x1)+int_x1^x2 sing(z)dz = 0 (absent parts read as 0), integral by scipy quad at 1e-12; "
    "reg, sing, loc return finite real scalars. Non-trivial = the triple has a singular or a local part."
)
ASSUMPTIONS = [
    "tolerance 1e-8*(int|sing| + |loc(x1)| + |loc(x2)|) for exact expressions (quadrature over ranges reaching 1-1e-9; measured 7e-10); 1e-5 for the published NNLO/N3LO "
    "parametrisations (light family and asymptotic classes built on them, order>=2), whose constants carry 5-6 digits",
    "LeProHQ kernels (heavy family) are asserted finite for z>=1e-5 only: its small-z breakdown is documented in Runner",
    "finiteness is asserted for z in [1e-7, 1-1e-9] and, for massive NC kernels, below the partonic threshold z_max "
    "(beyond it the kernel is defined to vanish); explicit refusals of LeProHQ ('high virtuality limit not known') are rejections",
]
BUDGET = {"quick": {"examples": 6000, "wall": 420}, "thorough": {"examples": 800000, "wall": 2400}}
MANDATORY = {
    t: ["nontrivial", "family:light", "family:heavy", "family:asy", "family:intrinsic", "family:splitting", "has:sing", "has:loc-only", "order:3"]
    for t in ("quick", "thorough")
}
SHRINK = {"quick": True, "thorough": True}

_BYID = None


def byid():
    global _BYID  # pylint: disable=global-statement
    if _BYID is None:
        entries, problems = catalogue.build()
        if problems:
            raise RuntimeError(f"catalogue problems: {problems[:3]}")
        if len(entries) < 1500:
            raise RuntimeError(f"catalogue has only {len(entries)} entries")
        _BYID = {}
        for e in entries:
            _BYID.setdefault(e.id, e)
    return _BYID


def xvalues():
    return st.one_of(
        st.floats(1e-7, 1 - 1e-9),
        st.floats(-7, -0.01).map(lambda e: 10.0**e),
        st.floats(-9, -0.01).map(lambda e: 1.0 - 10.0**e),
    )


@st.composite
def cases(draw, tier="quick"):
    ids = list(byid())
    # distribution-bearing entries are drawn more often
    dist = [i for i in ids if byid()[i].rsl.sing is not None or byid()[i].rsl.loc is not None]
    pool = dist if draw(st.integers(0, 3)) > 0 else ids
    eid = pool[draw(st.integers(0, len(pool) - 1))]
    a, b = draw(xvalues()), draw(xvalues())
    x1, x2 = min(a, b), max(a, b)
    zs = [draw(xvalues()) for _ in range(3)]
    return {"entry": eid, "x1": x1, "x2": x2, "zs": zs}


def enumerated(tier):
    out = []
    pairs = [(1e-3, 0.3), (0.1, 0.5), (0.5, 0.999), (1e-6, 0.9999999)]
    for eid, e in byid().items():
        if e.rsl.sing is None and e.rsl.loc is None:
            out.append({"entry": eid, "x1": 0.1, "x2": 0.5, "zs": [1e-6, 0.03, 0.4, 0.97]})
        else:
            for x1, x2 in pairs:
                out.append({"entry": eid, "x1": x1, "x2": x2, "zs": [1e-6, 0.03, 0.4, 0.97, 1 - 1e-8]})
    return out


def scalar(val):
    """(is real finite scalar, float value, description)"""
    if np.ndim(val) != 0:
        return False, float(np.asarray(val).reshape(-1)[0]) if np.size(val) else math.nan, f"returns an array of shape {np.shape(val)}"
    if isinstance(val, complex) or np.iscomplexobj(val):
        return False, float(np.real(val)), "returns a complex number"
    f = float(val)
    if not math.isfinite(f):
        return False, f, f"returns {f}"
    return True, f, ""


def check_case(case):
    v = Verdict()
    e = byid().get(case["entry"])
    if e is None:
        v.rejected = True
        v.label("unknown-entry")
        return v
    rsl = e.rsl
    short = e.id.split(":nf")[0]
    order = e.meta.get("order")
    v.label(f"family:{e.family}", f"order:{order}")
    zmax = 1.0
    if e.family == "heavy" and e.meta.get("m2") and e.meta.get("process") != "CC":
        zmax = 1.0 / (1.0 + 4.0 * e.meta["m2"] / e.meta["q2"])
    with warnings.catch_warnings(), np.errstate(all="ignore"):
        warnings.simplefilter("ignore")
        # ---- finiteness / scalar-ness
        for part in ("reg", "sing", "loc"):
            f, a = e.part(part)
            if f is None:
                continue
            for z in case["zs"]:
                if part == "reg" and z >= zmax * (1 - 1e-9):
                    continue
                if e.family == "heavy" and z < 1e-5:
                    continue  # LeProHQ's documented small-z limitation (trusted third party)
                try:
                    val = f(z, a)
                except ValueError as ex:
                    if "not known" in str(ex) or "not implemented" in str(ex).lower():
                        v.rejected = True
                        v.label("rejected:leprohq-limit")
                        return v
                    raise
                ok, _fv, why = scalar(val)
                if not ok:
                    kind = "nonscalar" if "array" in why or "complex" in why else "nonfinite"
                    v.fail(f"C03:{kind}:{e.family}:{short}:{part}", f"{e.id} {part}({z!r}) {why}")
                    break
        # ---- distribution consistency
        if rsl.sing is not None or rsl.loc is not None:
            v.nontrivial = True
            v.label("has:sing" if rsl.sing is not None else "has:loc-only")
            x1, x2 = case["x1"], case["x2"]
            if x2 > x1:
                l1 = l2 = 0.0
                if rsl.loc is not None:
                    l1 = float(np.asarray(rsl.loc(x1, rsl.args["loc"])).reshape(-1)[0])
                    l2 = float(np.asarray(rsl.loc(x2, rsl.args["loc"])).reshape(-1)[0])
                integ = iabs = 0.0
                if rsl.sing is not None:
                    sa = rsl.args["sing"]
                    fs = lambda z: float(np.asarray(rsl.sing(z, sa)).reshape(-1)[0])  # noqa: E731
                    # split the range so that both endpoint regions are resolved
                    cuts = sorted({x1, x2} | {c for c in (1e-4, 1e-2, 0.5, 0.9, 0.99, 0.9999, 0.999999) if x1 < c < x2})
                    for a_, b_ in zip(cuts[:-1], cuts[1:]):
                        integ += quad(fs, a_, b_, epsabs=0, epsrel=1e-12, limit=200)[0]
                        iabs += quad(lambda z: abs(fs(z)), a_, b_, epsabs=0, epsrel=1e-8, limit=200)[0]
                res = l2 - l1 + integ
                scale = iabs + abs(l1) + abs(l2)
                # Vogt et al. parametrisations (light family beyond NLO and the asymptotic classes re-using them) are
                # published with 5-6 significant digits: sing and loc agree only to that precision (measured <=1.5e-6)
                param = order is not None and order >= 2 and e.family in ("light", "asy")
                tol = (1e-5 if param else 1e-8) * scale + 1e-300
                if math.isfinite(res):
                    v.metric("distribution:param" if param else "distribution:exact", abs(res) / tol)
                if not abs(res) <= tol:
                    label = e.meta.get("label")
                    tag = f"splitting:{label}" if label else f"{e.family}:{short.split(':', 1)[1]}"
                    v.fail(
                        f"C03:distribution:{tag}",
                        f"{e.id}: loc({x2!r})-loc({x1!r})+int sing = {res:.6e} (scale {scale:.3e}); loc must be delta - int_0^x sing",
                    )
    if v.nontrivial:
        v.label("nontrivial")
    return v


def warmup():
    from .. import warm

    warm.import_all()
    warm.tiny_run()
    byid()
