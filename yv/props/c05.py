"""C05 - scale-variation terms satisfy the renormalisation-group equations (kernels, operator identities, switches)."""

import copy
import math
import warnings

import numpy as np
from hypothesis import strategies as st
from scipy.integrate import quad

from .. import basis, cards, configs, conv_ref, run
from ..engine import Verdict

ID = "C05"
RULE = (
    "(L1 kernels) for every splitting / convolved-splitting label, nf 3-6 and generated real or integer Mellin N the numerically "
    "integrated moment of the RSL equals -gamma(N) from ekore (products of LO gammas for the convolved labels). (L2 identities) "
    "on generated runs of 1-3 points with both variations on (any kind, process, scheme, heavyness, target, PTO 1-3; the points of a ZM-VFNS run may lie in different nf regions and each is judged at its own nf) the keys (1,0,0,1), "
    "(2,0,0,1), (2,0,0,2), (2,0,1,0), (2,0,1,1), (2,0,1,2), (3,0,1,0), (3,0,2,0) equal the combinations of the central tensors "
    "that dF/dln mu^2=0 prescribes, with beta0=11-2nf/3, beta1=102-38nf/3 typed in and flavour-space splitting matrices (P^V, "
    "P^qqbar, P^S, qg, gq, gg) assembled by the independent convolution engine of C01 acting on the kernels validated in L1 (their "
    "local parts are not used: they are rebuilt from delta - int_0^x sing); "
    "rows of intrinsic heavy quarks (|pid|>nf) take no factorisation-scale terms. (L3 switches) the four RenScaleVar x "
    "FactScaleVar runs of one card: keys with lnR>0 (lnF>0) vanish identically when that variation is off, all other keys are "
    "bitwise those of the full run. Non-trivial = PTO>=1 with a non-zero source tensor."
)
ASSUMPTIONS = [
    "identities derived from the two RGEs order by order (sign conventions: the keys carry powers of ln(Q2/muR2), ln(Q2/muF2) as "
    "applied by ESFResult.apply_pdf); a_s^3 keys with lnF>0 are not asserted (factorisation variation is implemented up to PTO 2)",
    "L2 tolerance 2e-6 of the absolute scale: both sides go through quadrature (own engine vs yadism's); the beta-only identities "
    "are pure algebra and checked at 1e-12",
    "eko/ekore anomalous dimensions are the trusted reference of L1 (1e-7)",
]
BUDGET = {"quick": {"examples": 480, "wall": 500, "min_evaluations": 150}, "thorough": {"examples": 40000, "wall": 2400, "min_evaluations": 2500}}
MANDATORY = {
    t: ["nontrivial", "clause:L1", "clause:L2", "clause:L3", "pto:2", "pto:3", "singlet-content", "intrinsic-rows", "L1:convolved", "L2:several-nf-in-one-run"]
    for t in ("quick", "thorough")
}
SHRINK = {"quick": False, "thorough": True}
abbreviate = configs.abbreviate
LABELS1 = ["P_qq_0", "P_qg_0"]
LABELS2 = ["P_gq_0", "P_gg_0", "P_nsp_1", "P_nsm_1", "P_qq_1", "P_qg_1", "P_qq_0^2", "P_qg_0P_gq_0", "P_qq_0P_qg_0", "P_qg_0P_gg_0"]
_MAT = {}


def labels():
    from yadism.coefficient_functions import splitting_functions as split

    d = {}
    for lv in split.raw_labels:
        d.update(lv)
    return d


def gamma(label, n, nf):
    from ekore import harmonics
    from ekore.anomalous_dimensions.unpolarized.space_like import as1, as2

    c = harmonics.cache.reset()
    n = complex(n)
    g = {
        "P_qq_0": lambda: as1.gamma_ns(n, c),
        "P_qg_0": lambda: as1.gamma_qg(n, nf),
        "P_gq_0": lambda: as1.gamma_gq(n),
        "P_gg_0": lambda: as1.gamma_gg(n, c, nf),
        "P_nsp_1": lambda: as2.gamma_nsp(n, nf, c),
        "P_nsm_1": lambda: as2.gamma_nsm(n, nf, c),
        "P_qq_1": lambda: as2.gamma_nsp(n, nf, c) + as2.gamma_ps(n, nf),
        "P_qg_1": lambda: as2.gamma_qg(n, nf, c),
    }
    if label in g:
        return -complex(g[label]()).real
    prod = {
        "P_qq_0^2": ("P_qq_0", "P_qq_0"),
        "P_qg_0P_gq_0": ("P_qg_0", "P_gq_0"),
        "P_qq_0P_qg_0": ("P_qq_0", "P_qg_0"),
        "P_qg_0P_gg_0": ("P_qg_0", "P_gg_0"),
    }[label]
    return gamma(prod[0], n, nf) * gamma(prod[1], n, nf)


def moment(rsl, n):
    tot, sc = 0.0, 0.0
    kw = dict(epsabs=0.0, epsrel=1e-11, limit=300)
    cuts = [0.0, 1e-8, 1e-5, 1e-3, 0.5, 0.9, 0.999, 0.99999, 1.0]
    if rsl.reg is not None:
        a = rsl.args["reg"]
        for lo, hi in zip(cuts[:-1], cuts[1:]):
            v = quad(lambda z: 0.0 if z >= 1.0 else z ** (n - 1) * rsl.reg(z, a), lo, hi, **kw)[0]
            tot += v
            sc += abs(v)
    if rsl.sing is not None:
        a = rsl.args["sing"]
        for lo, hi in zip(cuts[:-1], cuts[1:]):
            # after many bisections a node of the last piece can round to exactly 1.0, where 1/(1-z) divides by zero (harness error at
            # seed 1 once the draw sequence changed); the integrand has a finite limit there and a single point carries no weight
            v = quad(lambda z: 0.0 if z >= 1.0 else (z ** (n - 1) - 1.0) * rsl.sing(z, a), lo, hi, **kw)[0]
            tot += v
            sc += abs(v)
    if rsl.loc is not None:
        v = float(rsl.loc(0.0, rsl.args["loc"]))
        tot += v
        sc += abs(v)
    return tot, sc


@st.composite
def cases(draw, tier="quick"):
    clause = draw(st.sampled_from(["L1", "L1", "L2", "L2", "L2", "L3"]))
    if clause == "L1":
        lab = draw(st.sampled_from(LABELS1 + LABELS2))
        singlet = lab not in ("P_qq_0", "P_nsp_1", "P_nsm_1", "P_qq_0^2")
        n = draw(st.one_of(st.integers(2, 14).map(float), st.floats(1.5 if singlet else 1.0, 25.0).map(lambda v: round(v, 3))))
        return {"clause": "L1", "label": lab, "nf": draw(st.integers(3, 6)), "N": n}
    pto = draw(st.sampled_from([1, 2, 2, 2, 3]))
    cfg = draw(
        configs.config(
            max_pto=0,
            sv="both",
            targets=("proton", "proton", "ZA"),
            grid_kw={"nmin": 4, "nmax": 6, "umin": 1.0, "umax": 3.5},
            n_points=(1, 3) if clause == "L2" else (1, 1),
            schemes=("ZM-VFNS", "ZM-VFNS") + tuple(cards.SCHEMES) if clause == "L2" else tuple(cards.SCHEMES),
            x_classes=["interior", "node", "large"],
            q2range=(2.0, 1e4),
        )
    )
    th, meta = cfg["theory"], cfg["meta"]
    pts = cfg["obs"]["observables"][meta["name"]]
    if clause == "L2" and meta["scheme"] == "ZM-VFNS" and len(pts) >= 2:
        # spread the points of one run over different nf regions
        thr = [(th[m] * th[k]) ** 2 for m, k in (("mc", "kcThr"), ("mb", "kbThr"), ("mt", "ktThr"))]
        edges = [2.0] + [t for t in thr if 2.0 < t < 1e4] + [1e4]
        regions = [(lo, hi) for lo, hi in zip(edges[:-1], edges[1:]) if hi > lo * 1.05]
        order = draw(st.permutations(range(len(regions))))
        for p_, r_ in zip(pts, order):
            lo, hi = regions[r_]
            p_["Q2"] = float(f"{math.exp(draw(st.floats(math.log(lo * 1.01), math.log(hi * 0.99)))):.8g}")
    if meta["kind"] == "g1" and pto > 2:
        pto = 2
    th["PTO"] = meta["pto"] = pto
    configs.split_orders(draw, th, meta)
    cfg["clause"] = clause
    return cfg


def enumerated(tier):
    out = []
    for lab in LABELS1 + LABELS2:
        for nf in (3, 4, 5, 6):
            for n in (2.0, 3.0, 7.5):
                out.append({"clause": "L1", "label": lab, "nf": nf, "N": n})
    return out


def matrices(b, nf, need2):
    """label -> M[l,k] = (P_label x p_l)(x_k) by the independent engine"""
    key = (tuple(b.x), b.d, b.log, nf, need2)
    if key not in _MAT:
        if len(_MAT) > 40:
            _MAT.clear()
        lab = labels()
        out = {}
        for name in LABELS1 + (LABELS2 if need2 else []):
            rsl = lab[name](nf)
            m = np.zeros((b.n, b.n))
            for k, xk in enumerate(b.x):
                if xk >= 1.0:
                    continue
                val, _ = conv_ref.convolve(rsl, b, xk, epsrel=1e-9, derive_loc=True)
                m[:, k] = val
            out[name] = m
        _MAT[key] = out
    return _MAT[key]


def compose(o, mats, nf, which):
    """(O o Pi)[p', l] for Pi in {'0', '1', '00'}; o: tensor (14, n) with intrinsic rows already removed"""
    res = np.zeros_like(o)
    quarks = [q for q in range(1, nf + 1)] + [-q for q in range(1, nf + 1)]
    rq = [run.ROW[q] for q in quarks]
    rg = run.ROW[21]
    sumq = o[rq].sum(axis=0)
    if which == "0":
        for q in quarks:
            res[run.ROW[q]] = mats["P_qq_0"] @ o[run.ROW[q]] + mats["P_gq_0"] @ o[rg] if "P_gq_0" in mats else mats["P_qq_0"] @ o[run.ROW[q]]
        res[rg] = mats["P_qg_0"] @ sumq / (2 * nf) + (mats["P_gg_0"] @ o[rg] if "P_gg_0" in mats else 0.0)
    elif which == "1":
        mv = 0.5 * (mats["P_nsp_1"] + mats["P_nsm_1"])
        mvb = 0.5 * (mats["P_nsp_1"] - mats["P_nsm_1"])
        ms = (mats["P_qq_1"] - mats["P_nsp_1"]) / (2 * nf)
        for q in quarks:
            res[run.ROW[q]] = mv @ o[run.ROW[q]] + mvb @ o[run.ROW[-q]] + ms @ sumq
        res[rg] = mats["P_qg_1"] @ sumq / (2 * nf)
    else:
        for q in quarks:
            res[run.ROW[q]] = mats["P_qq_0^2"] @ o[run.ROW[q]] + mats["P_qg_0P_gq_0"] @ sumq / (2 * nf)
        res[rg] = (mats["P_qq_0P_qg_0"] + mats["P_qg_0P_gg_0"]) @ sumq / (2 * nf)
    return res


def _l2_point(v, th, meta, name, pto, b, kin, ts, matcache):
    nf = cards.nf_ref(th, kin["Q2"])
    if nf not in matcache:
        matcache[nf] = matrices(b, nf, pto >= 2)
    mats = matcache[nf]
    b0 = 11.0 - 2.0 * nf / 3.0
    b1 = 102.0 - 38.0 * nf / 3.0
    z = np.zeros_like(ts[(0, 0, 0, 0)])
    o = [ts.get((i, 0, 0, 0), z) for i in range(4)]
    # factorisation-scale terms act on the non-intrinsic rows only
    intr = [run.ROW[p] for p in run.PIDS if p not in (21, 22) and abs(p) > nf]
    of = []
    for t in o:
        t2 = np.array(t, copy=True)
        t2[intr] = 0.0
        of.append(t2)
    if any(np.any(t[intr] != 0) for t in o):
        v.label("intrinsic-rows")
    if np.any(of[1][run.ROW[21]] != 0):
        v.label("singlet-content")
    exp = {}
    exp[(1, 0, 0, 1)] = ("fact", compose(of[0], mats, nf, "0"))
    if pto >= 2:
        exp[(2, 0, 0, 1)] = ("fact", compose(of[0], mats, nf, "1") + compose(of[1], mats, nf, "0"))
        exp[(2, 0, 0, 2)] = ("fact", 0.5 * (compose(of[0], mats, nf, "00") + b0 * compose(of[0], mats, nf, "0")))
        exp[(2, 0, 1, 0)] = ("beta", -b0 * o[1])
        exp[(2, 0, 1, 1)] = ("fact", -b0 * compose(of[0], mats, nf, "0"))
        exp[(2, 0, 1, 2)] = ("beta", 0.0 * o[0])
    if pto >= 3:
        exp[(3, 0, 1, 0)] = ("beta", -2.0 * b0 * o[2] - b1 * o[1])
        exp[(3, 0, 2, 0)] = ("beta", b0 * b0 * o[1])
    nz = False
    for k, (cls, e) in exp.items():
        if k not in ts:
            v.fail(f"C05:L2:missing:{k}", f"{name}: key {k} missing from the output")
            continue
        s = max(run.maxabs(e), run.maxabs(ts[k]), 1e-300)
        # absolute scale: the largest term entering the combination
        s = max(s, run.maxabs(o[0]) * (b0 if cls == "fact" else 0.0))
        d = run.maxabs(ts[k] - e)
        rtol = 2e-6 if cls == "fact" else 1e-12
        x = kin["x"]
        if cls == "fact":
            rtol += 4e-9 / (1.0 - min(x, 1 - 1e-12))
        v.metric(f"L2:{cls}", d / (rtol * s))
        if run.maxabs(e) > 0:
            nz = True
        if not d <= rtol * s:
            bad = np.unravel_index(np.argmax(np.abs(ts[k] - e)), e.shape)
            v.fail(
                f"C05:L2:{k}:{'intrinsic' if intr and bad[0] in intr else 'light'}",
                f"{name} ({meta['process']}, {meta['scheme']}, nf={nf}) x={x!r}: key {k} = {ts[k][bad]!r} at pid {run.PIDS[bad[0]]} node {bad[1]}, RGE prescribes {e[bad]!r} (|d|={d:.3e}, scale {s:.3e})",
            )
    return nz


def check_case(case):
    v = Verdict()
    cl = case["clause"]
    v.label(f"clause:{cl}")
    with warnings.catch_warnings(), np.errstate(all="ignore"):
        warnings.simplefilter("ignore")
        if cl == "L1":
            lab, nf, n = case["label"], case["nf"], case["N"]
            rsl = labels()[lab](nf)
            got, sc = moment(rsl, n)
            exp = gamma(lab, n, nf)
            tol = 1e-7 * (sc + abs(exp)) + 1e-9
            v.metric("L1", abs(got - exp) / tol)
            v.nontrivial = True
            if lab in LABELS2[6:]:
                v.label("L1:convolved")
            if not abs(got - exp) <= tol:
                v.fail(f"C05:L1:{lab}", f"{lab} nf={nf}: Mellin moment N={n} is {got!r}, -gamma from eko {exp!r}")
            v.label("nontrivial")
            return v
        th, ob, meta = case["theory"], case["obs"], case["meta"]
        name, pto = meta["name"], meta["pto"]
        v.label(f"pto:{pto}", f"scheme:{meta['scheme']}", f"kind:{meta['kind']}")
        if cl == "L3":
            ts = run.tensors(run.run(th, ob)[name][0])
            nz = False
            for ren, fact in ((True, False), (False, True), (False, False)):
                t2 = dict(th, RenScaleVar=ren, FactScaleVar=fact)
                r2 = run.tensors(run.run(t2, ob)[name][0])
                if list(r2) != list(ts):
                    v.fail("C05:L3:keys", f"order keys change with the switches: {list(r2)} vs {list(ts)}")
                    continue
                for k in ts:
                    off = (k[2] > 0 and not ren) or (k[3] > 0 and not fact)
                    if off:
                        if np.any(r2[k] != 0.0):
                            v.fail(f"C05:L3:not-zero:{'ren' if k[2] > 0 and not ren else 'fact'}", f"{name}: key {k} is non-zero with RenScaleVar={ren}, FactScaleVar={fact}")
                    elif not np.array_equal(r2[k], ts[k]):
                        v.fail("C05:L3:changed", f"{name}: key {k} changes when switching to RenScaleVar={ren}, FactScaleVar={fact} (max diff {run.maxabs(r2[k]-ts[k]):.3e})")
                    if run.maxabs(ts[k]) > 0 and (k[2] or k[3]):
                        nz = True
            v.nontrivial = nz
            if nz:
                v.label("nontrivial")
            return v
        # ---- L2: every point of the run against the identities at its own nf
        b = basis.Basis(ob["interpolation_xgrid"], ob["interpolation_polynomial_degree"], ob["interpolation_is_log"])
        allres = run.run(th, ob)[name]
        nfs = [cards.nf_ref(th, k["Q2"]) for k in ob["observables"][name]]
        if len(set(nfs)) > 1 and meta["scheme"] == "ZM-VFNS":
            v.label("L2:several-nf-in-one-run")
        matcache = {}
        nz = False
        for kin, res in zip(ob["observables"][name], allres):
            nz = _l2_point(v, th, meta, name, pto, b, kin, run.tensors(res), matcache) or nz
        v.nontrivial = nz
    if v.nontrivial:
        v.label("nontrivial")
    return v


def warmup():
    from .. import warm

    warm.import_all()
    warm.tiny_run()
