"""C18 - compiled kernels agree with their Python semantics (differential: njit vs py_func vs interpreter)."""

import hashlib
import json
import math
import os
import subprocess
import sys
import tempfile

import numpy as np
from hypothesis import strategies as st

from .. import cards, catalogue, configs, env, run
from ..engine import Verdict

ID = "C18"
EXPECTED_DISPATCHERS = 143
RULE = (
    "All numba dispatchers found by walking the package (harness error if fewer than 143) are called with generated "
    "arguments per signature - f8(f8,f8[:]): z log-dense towards 0 and 1, argument vectors harvested from the RSL objects "
    "the calling classes really build (catalogue of ~2000 triples) plus generic and over-long vectors; f8(f8): z in (0,1) "
    "resp. the real line for Li2; Nielsen: all legal (n,m) and real x - and dispatcher(*a) is compared with "
    "dispatcher.py_func(*a). Every harvested (function, argument vector) pair is additionally executed in a child "
    "interpreter with NUMBA_DISABLE_JIT=1 (thorough: also compiled with NUMBA_BOUNDSCHECK=1): an IndexError there means the "
    "production machine code reads outside its array. End-to-end: a fixed set of run cards (all schemes, PTO<=3, TMC, scale "
    "variations; groups of four run back to back in one process on the same grid nodes with changing degree and log flag) "
    "are computed with JIT on (parent) and off (child) - once more with the documented integration knobs of yadism.esf.conv set to non-default values in both modes -, operators must agree to quadrature accuracy (1e-12 LO, 1e-6 NLO, "
    "1e-4 beyond, relative to the tensor scale; the kernels themselves agree to 1e-10). "
    "Non-trivial = kernel called with a harvested vector, or an end-to-end pair with non-zero operators."
)
ASSUMPTIONS = [
    "rounding tolerance |d| <= 1e-10*max(|a|,|b|)+1e-12 between machine code and interpreter (different evaluation order, fused ops)",
    "py_func of a kernel still calls compiled callees; whole-interpreter semantics is covered by the NUMBA_DISABLE_JIT child",
]
BUDGET = {"quick": {"examples": 4000, "wall": 420}, "thorough": {"examples": 600000, "wall": 2400}}
MANDATORY = {t: ["nontrivial", "oob-child", "e2e", "e2e:integration-knobs-changed", "harvested-vector", "sig:f8(f8,f8[:])", "sig:f8(f8)", "sig:nielsen"] for t in ("quick", "thorough")}
SHRINK = {"quick": True, "thorough": True}

_DISP = None
_VEC = None


def dispatchers():
    global _DISP  # pylint: disable=global-statement
    if _DISP is None:
        import numba

        from .. import warm

        found = {}
        d = warm.import_all()
        if d["failed"]:
            raise RuntimeError(f"modules failed to import: {d['failed']}")
        for m in d["modules"]:
            for n, o in vars(m).items():
                if isinstance(o, numba.core.registry.CPUDispatcher) and o.py_func.__module__ == m.__name__:
                    found[f"{m.__name__[len('yadism.'):]}.{n}"] = o
        if len(found) < EXPECTED_DISPATCHERS:
            raise RuntimeError(f"only {len(found)} numba dispatchers found, expected >= {EXPECTED_DISPATCHERS}")
        _DISP = dict(sorted(found.items()))
    return _DISP


def sig_of(o):
    s = str(o.nopython_signatures[0])
    if "Array" in s or "array" in s:
        return "f8(f8,f8[:])"
    if s.startswith("(float64,)"):
        return "f8(f8)"
    return "nielsen"


def vectors():
    """dispatcher name -> list of argument vectors really passed to it (from the catalogue)"""
    global _VEC  # pylint: disable=global-statement
    if _VEC is None:
        disp = dispatchers()
        byobj = {id(o): n for n, o in disp.items()}
        vec = {}
        entries, _ = catalogue.build()
        for e in entries:
            for part in ("reg", "sing", "loc"):
                f, a = e.part(part)
                if f is not None and id(f) in byobj:
                    lst = vec.setdefault(byobj[id(f)], [])
                    v = [float(x) for x in a]
                    if v not in lst:
                        lst.append(v)
        _VEC = vec
    return _VEC


def zvalues():
    return st.one_of(
        st.floats(1e-9, 1 - 1e-9),
        st.floats(-9, -0.01).map(lambda e: 10.0**e),
        st.floats(-9, -0.01).map(lambda e: 1.0 - 10.0**e),
    )


@st.composite
def cases(draw, tier="quick"):
    disp = dispatchers()
    names = list(disp)
    name = names[draw(st.integers(0, len(names) - 1))]
    sig = sig_of(disp[name])
    if sig == "f8(f8,f8[:])":
        hv = vectors().get(name, [])
        choice = draw(st.integers(0, 3))
        if hv and choice <= 1:
            vec = hv[draw(st.integers(0, len(hv) - 1))]
            src = "harvested"
            if choice == 1:
                vec = vec + [draw(st.floats(-3, 3)), 7.0]  # over-long: extra entries must be ignored
                src = "harvested+long"
        else:
            base = hv[0] if hv else [float(draw(st.integers(3, 6)))]
            n = max(len(base), 1)
            vec = [float(draw(st.integers(3, 6)))] + [round(draw(st.floats(-5, 8)), 3) for _ in range(n - 1 + draw(st.integers(0, 2)))]
            src = "generic"
        return {"mode": "kernel", "fn": name, "args": [draw(zvalues()), vec], "src": src}
    if sig == "f8(f8)":
        if name.endswith(".li2"):
            x = draw(st.one_of(st.floats(-50, 1.0), st.sampled_from([1.0, -1.0, 0.0, 0.5, -2.0])))
        else:
            x = draw(zvalues())
        return {"mode": "kernel", "fn": name, "args": [x], "src": "scalar"}
    n = draw(st.integers(1, 4))
    m = draw(st.integers(1, 5 - n))
    x = draw(st.one_of(st.floats(-5, 5), st.sampled_from([1.0, -1.0, 0.0, 0.5, 2.0, 2.5])))
    return {"mode": "kernel", "fn": name, "args": [n, m, x], "src": "nielsen"}


def e2e_cards(tier):
    """deterministic set of run cards for the end-to-end JIT on/off comparison"""
    out = []
    kin = [{"x": 0.03, "Q2": 8.0}, {"x": 0.4, "Q2": 120.0}]
    base = [
        ("ZM-VFNS", 4, "NC", "F2_total", 3, 0, False),
        ("ZM-VFNS", 4, "CC", "F3_total", 3, 0, False),
        ("ZM-VFNS", 4, "CC", "FL_total", 3, 0, False),
        ("ZM-VFNS", 4, "NC", "g1_total", 2, 0, True),
        ("FFNS", 3, "NC", "F2_total", 2, 0, False),
        ("FFNS", 3, "CC", "F2_charm", 1, 1, False),
        ("FFN0", 3, "NC", "FL_total", 2, 0, False),
        ("FFNS", 4, "NC", "F3_total", 2, 3, False),
        ("ZM-VFNS", 4, "NC", "F2_light", 2, 0, True),
        ("FONLL-FFNS", 4, "NC", "F2_bottom", 1, 0, True),
        ("FFN0", 3, "CC", "F3_charm", 1, 0, False),
        ("FFNS", 3, "NC", "g1_charm", 1, 1, False),
        ("ZM-VFNS", 4, "NC", "gL_total", 2, 0, False),
        ("ZM-VFNS", 4, "NC", "XSHERANC_total", 1, 2, True),
        ("FFNS", 3, "EM", "FL_charm", 2, 0, False),
        ("FFN0", 4, "NC", "F2_total", 3, 0, False),
    ]
    if tier == "thorough":
        base = base + [(s, n, p, o.replace("F2", "FL") if "F2" in o else o.replace("FL", "F2"), pto, tmc, sv) for (s, n, p, o, pto, tmc, sv) in base]
    for i, (scheme, nfff, process, name, pto, tmc, sv) in enumerate(base):
        th = cards.theory(PTO=pto, FNS=scheme, NfFF=nfff, TMC=tmc, RenScaleVar=sv, FactScaleVar=sv and pto <= 2)
        ob = cards.observables(prDIS=process, ProjectileDIS="neutrino" if process == "CC" else "electron", interpolation_xgrid=[1e-3, 1e-2, 0.1, 0.3, 0.6, 1.0])
        # one grid, changing basis: the four cards of one e2e case run back to back in one process on the same nodes with
        # different degree / log flag (anything compiled-only that survives from run to run would be keyed on the nodes)
        ob["interpolation_polynomial_degree"] = (3, 2, 4, 1)[i % 4]
        ob["interpolation_is_log"] = i % 3 != 2
        k = [dict(p, y=0.4) for p in kin] if name.startswith("XS") else kin
        ob["observables"] = {name: k}
        out.append({"theory": th, "obs": ob, "name": name})
    return out


def enumerated(tier):
    disp = dispatchers()
    out = [{"mode": "oob-child", "boundscheck": False}]
    if tier == "thorough":
        out.append({"mode": "oob-child", "boundscheck": True})
    cs = e2e_cards(tier)
    for i in range(0, len(cs), 4):
        out.append({"mode": "e2e", "cards": cs[i : i + 4]})
    # the documented run-time knobs of the integration (module attributes of yadism.esf.conv) set to non-default values in both
    # modes: compiled code must read them when it runs, as the interpreter does, not when it was compiled
    out.append({"mode": "e2e", "cards": cs[0:2] + cs[4:6], "knobs": {"eps_integration_border": 1e-4, "eps_integration_abs": 1e-9}})
    # every kernel with deterministic points and every harvested vector
    zs = [1e-7, 1e-3, 0.1, 0.5, 0.9, 0.999, 1 - 1e-7]
    vec = vectors()
    for name, o in disp.items():
        sig = sig_of(o)
        if sig == "f8(f8,f8[:])":
            vs = vec.get(name, [])
            pick = vs[:: max(1, len(vs) // 6)][:8] if vs else [[4.0, 1.0, 2.0, 3.0]]
            for v in pick:
                for z in zs[1:6:2] if vs else zs:
                    out.append({"mode": "kernel", "fn": name, "args": [z, v], "src": "harvested" if vs else "generic"})
        elif sig == "f8(f8)":
            for z in zs:
                out.append({"mode": "kernel", "fn": name, "args": [z], "src": "scalar"})
        else:
            for n in range(1, 5):
                for m in range(1, 6 - n):
                    for x in (-0.5, 0.3, 0.9, 1.0):
                        out.append({"mode": "kernel", "fn": name, "args": [n, m, x], "src": "nielsen"})
    return out


def same_value(a, b):
    a, b = complex(a), complex(b)
    fa = math.isfinite(a.real) and math.isfinite(a.imag)
    fb = math.isfinite(b.real) and math.isfinite(b.imag)
    if not fa or not fb:
        return (not fa and not fb and str(a) == str(b)), float("inf")
    d = abs(a - b)
    tol = 1e-10 * max(abs(a), abs(b)) + 1e-12
    return d <= tol, d / tol


def child(args, extra_env, timeout=1500):
    e = dict(os.environ)
    e.update(extra_env)
    e.pop("NUMBA_CACHE_DIR", None)
    p = subprocess.run([sys.executable, "-m", "yv.c18_child"] + args, env=e, cwd=str(env.HOME), capture_output=True, text=True, timeout=timeout)
    if p.returncode != 0:
        raise RuntimeError(f"child failed rc={p.returncode}: {p.stderr[-1500:]}")


def check_case(case):
    v = Verdict()
    mode = case["mode"]
    if mode == "kernel":
        disp = dispatchers()
        o = disp[case["fn"]]
        sig = sig_of(o)
        v.label(f"sig:{sig}", f"module:{case['fn'].rsplit('.', 1)[0]}", f"src:{case['src']}")
        a = list(case["args"])
        if sig == "f8(f8,f8[:])":
            a[1] = np.array(a[1], dtype=float)
        elif sig == "nielsen":
            a = [int(a[0]), int(a[1]), float(a[2])]
        err_c = err_p = None
        with np.errstate(all="ignore"):
            try:
                rc = o(*a)
            except Exception as e:  # pylint: disable=broad-except
                err_c = type(e).__name__
            try:
                rp = o.py_func(*a)
            except Exception as e:  # pylint: disable=broad-except
                err_p = type(e).__name__
        if err_c or err_p:
            if err_p == "IndexError" and err_c is None:
                v.fail(f"C18:oob:{case['fn']}", f"{case['fn']} reads outside its argument vector {case['args'][1]} (IndexError in Python, silent in machine code)")
            elif err_c != err_p:
                v.fail(f"C18:exception-mismatch:{case['fn']}", f"compiled raised {err_c}, interpreted raised {err_p} for {case['args']}")
            else:
                v.rejected = True
        else:
            ok, ratio = same_value(rc, rp)
            v.metric("njit-vs-py", ratio if math.isfinite(ratio) else 0.0)
            if not ok:
                v.fail(f"C18:value-mismatch:{case['fn']}", f"{case['fn']}{tuple(case['args'])}: compiled {rc!r} vs interpreted {rp!r}")
        if case["src"].startswith("harvested"):
            v.label("harvested-vector")
            v.nontrivial = True
    elif mode == "oob-child":
        v.label("oob-child")
        with tempfile.TemporaryDirectory(prefix="yv_c18_") as tmp:
            outp = os.path.join(tmp, "oob.json")
            child(["oob", outp], {"NUMBA_BOUNDSCHECK": "1"} if case["boundscheck"] else {"NUMBA_DISABLE_JIT": "1"})
            res = json.load(open(outp))
        v.label(f"oob-evaluated:{'boundscheck' if case['boundscheck'] else 'nojit'}")
        v.metrics["oob_pairs_evaluated"] = float(res["evaluated"])
        if res["evaluated"] < 2000:
            raise RuntimeError(f"child evaluated only {res['evaluated']} pairs")
        for f in res["failures"]:
            if f.get("other"):
                v.fail(f"C18:child-exception:{f['id']}:{f['part']}", f"{f['id']} {f['part']} ({f['fn']}, {f['nargs']} args): {f['error']} without JIT")
            else:
                v.fail(f"C18:oob:{f['fn']}:{f['id'].split(':nf')[0]}", f"{f['id']} part {f['part']} -> {f['fn']} with a vector of {f['nargs']} arguments: {f['error']}")
        v.nontrivial = True
    else:
        v.label("e2e")
        with tempfile.TemporaryDirectory(prefix="yv_c18_") as tmp:
            inp, outp = os.path.join(tmp, "in.json"), os.path.join(tmp, "out.json")
            knobs = case.get("knobs") or {}
            json.dump([dict(c, knobs=knobs) for c in case["cards"]], open(inp, "w"))
            child(["e2e", inp, outp], {"NUMBA_DISABLE_JIT": "1"})
            ref = json.load(open(outp))
        if knobs:
            v.label("e2e:integration-knobs-changed")
        from yadism.esf import conv as _conv

        saved = {k: getattr(_conv, k) for k in knobs}
        for c, r in zip(case["cards"], ref):
            try:
                for k, val in knobs.items():
                    setattr(_conv, k, val)
                o = run.run(c["theory"], c["obs"])
                mine = {"ok": True}
            except Exception as e:  # pylint: disable=broad-except
                mine = {"ok": False, "error": str(e)}
            finally:
                for k, val in saved.items():
                    setattr(_conv, k, val)
            tag = f"{c['name']}:{c['theory']['FNS']}:pto{c['theory']['PTO']}:tmc{c['theory']['TMC']}"
            if mine["ok"] != r["ok"]:
                v.fail(f"C18:e2e-outcome:{tag}", f"JIT on ok={mine['ok']} vs JIT off ok={r['ok']}: {mine.get('error') or r.get('error')}")
                continue
            if not r["ok"]:
                continue
            for name in c["obs"]["observables"]:
                for i, res in enumerate(o[name]):
                    for k, val in res.orders.items():
                        a = np.asarray(val[0], dtype=float)
                        b = np.asarray(r["res"][name][i][str(list(k))], dtype=float)
                        s = max(run.maxabs(a), run.maxabs(b))
                        d = run.maxabs(a - b) if np.all(np.isfinite(a)) and np.all(np.isfinite(b)) else float("inf")
                        # both modes integrate with adaptive quadrature: rounding-level differences of the integrand
                        # change the subdivision, so agreement is at quadrature accuracy per perturbative order
                        rtol = (1e-12, 1e-6, 1e-4, 1e-4)[min(k[0], 3)]
                        v.metric("e2e", d / (rtol * s + 1e-300))
                        if s > 0:
                            v.nontrivial = True
                        if not d <= rtol * s + 1e-300:
                            v.fail(f"C18:e2e-value:{tag}", f"{name}[{i}] key {k}: |JIT on - JIT off| = {d:.3e} (scale {s:.3e})")
    if v.nontrivial:
        v.label("nontrivial")
    return v


def abbreviate(case):
    if case["mode"] == "e2e":
        return {"mode": "e2e", "cards": [configs.abbreviate({"theory": c["theory"], "obs": {"observables": c["obs"]["observables"], "prDIS": c["obs"]["prDIS"]}}) for c in case["cards"]]}
    return case


def warmup():
    from .. import warm

    warm.import_all()
    warm.tiny_run()
    dispatchers()
    vectors()
