"""C13 - symmetry and decoupling relations between processes and beams (metamorphic pairs)."""

import copy

import numpy as np
from hypothesis import strategies as st

from .. import cards, configs, run
from ..engine import Verdict

ID = "C13"
RULE = (
    "Hypothesis draws a clause (a: NC with decoupled Z vs EM, b: e+(P) vs e-(-P), c: CC charge "
    "conjugation nu<->nubar / e-<->e+ with arbitrary CKM, d: exchange of equal-charge active quarks in "
    "ZM-VFNS) and a complete run card (kind, heavyness, scheme, NfFF, PTO 0-3, EW parameters, CKM, "
    "polarisation, target, grid, kinematics); both runs are executed and compared per order key and "
    "operator entry. Non-trivial = the compared tensors are not all zero (for c additionally: CKM not the "
    "default one or heavy flavour involved). Distinct = distinct case hash."
)
ASSUMPTIONS = [
    "bitwise clauses (a with MZ=inf, b) compare two runs of the same process with the same compiled code",
    "clause a decouples the Z with MZ=inf (propagator ratio exactly 0) or MZ=1e150 (ratio ~1e-297)",
    "polarised CC and polarised N3LO (documented gaps, explicitly rejected by the code) are not generated",
]
BUDGET = {
    "quick": {"examples": 4000, "wall": 300},
    "thorough": {"examples": 90000, "wall": 2400},
}
MANDATORY = {
    "quick": ["clause:a", "clause:b", "clause:c", "clause:d", "nontrivial:a", "nontrivial:b", "nontrivial:c", "nontrivial:d"],
    "thorough": ["clause:a", "clause:b", "clause:c", "clause:d", "nontrivial:a", "nontrivial:b", "nontrivial:c", "nontrivial:d"],
}
SHRINK = {"quick": False, "thorough": True}
abbreviate = configs.abbreviate

RTOL = 1e-13


@st.composite
def cases(draw, tier="quick"):
    clause = draw(st.sampled_from(["a", "a", "b", "c", "c", "d"]))
    max_pto = 3
    if clause == "a":
        kinds = draw(st.sampled_from([("F2", "FL", "g1"), ("F2", "FL", "g1"), ("F3", "gL", "g4")]))
        cfg = draw(configs.config(processes=("NC",), kinds=kinds, max_pto=max_pto, targets=("proton", "ZA", "isoscalar"), tmcs=(0, 0, 0, 1, 3)))
        if draw(st.integers(0, 4)) > 0:  # neutrino beams are identically zero without Z: keep them rare
            cfg["obs"]["ProjectileDIS"] = draw(st.sampled_from(["electron", "positron"]))
        cfg["mz"] = draw(st.sampled_from(["inf", "inf", "1e150"]))
    elif clause == "b":
        cfg = draw(configs.config(processes=("NC", "NC", "NC", "EM"), max_pto=max_pto, targets=("proton", "ZA"), tmcs=(0, 0, 0, 1, 2)))
        cfg["obs"]["ProjectileDIS"] = "positron"
        cfg["obs"]["PolarizationDIS"] = round(draw(st.floats(-1.0, 1.0)), 4)
    elif clause == "c":
        cfg = draw(
            configs.config(
                processes=("CC",), kinds=("F2", "FL", "F3"), max_pto=max_pto, targets=("proton", "ZA", "neutron")
            )
        )
        cfg["pair"] = draw(st.sampled_from(["nu", "e"]))
        if draw(st.integers(0, 3)) > 0:
            cfg["theory"]["CKM"] = draw(cards.ckm(style=draw(st.sampled_from(["str", "list"]))))
    else:
        cfg = draw(
            configs.config(
                processes=("NC", "EM"),
                schemes=("ZM-VFNS",),
                heavynesses=("total", "light"),
                max_pto=max_pto,
                targets=("proton",),
                q2range=(1.5, 1e5),
            )
        )
    cfg["clause"] = clause
    if cfg["theory"]["TMC"] and cfg["meta"]["pto"] > 1:
        cfg["theory"]["PTO"] = cfg["meta"]["pto"] = 1
    configs.split_orders(draw, cfg["theory"], cfg["meta"])
    return cfg


def _scale(ts):
    return max((run.maxabs(t) for t in ts.values()), default=0.0)


def _flip_rows(t):
    """O[p] -> O[-p] for quarks; gluon and photon rows stay."""
    out = np.array(t, copy=True)
    for p in range(1, 7):
        out[run.ROW[p]], out[run.ROW[-p]] = t[run.ROW[-p]].copy(), t[run.ROW[p]].copy()
    return out


def check_case(case):
    v = Verdict()
    cl = case["clause"]
    v.label("tmc:on" if case["theory"]["TMC"] else "tmc:off")
    v.label(f"clause:{cl}", f"pto:{case['meta']['pto']}", f"scheme:{case['meta']['scheme']}", f"kind:{case['meta']['kind']}")
    th, ob = case["theory"], case["obs"]
    name = case["meta"]["name"]
    kind = case["meta"]["kind"]
    if cl == "a":
        th1 = dict(th)
        th1["MZ"] = float(case["mz"])
        ob2 = copy.deepcopy(ob)
        ob2["prDIS"] = "EM"
        r1, r2 = run.run(th1, ob)[name], run.run(th, ob2)[name]
        v.label(f"mz:{case['mz']}")
        nz = False
        for a, b in zip(r1, r2):
            ta, tb = run.tensors(a), run.tensors(b)
            nz = nz or _scale(tb) > 0
            if case["mz"] == "inf":
                ok, why = run.bitwise_equal_res(a, b)
                if not ok:
                    v.fail(f"C13:a:decoupling-bitwise:{kind}", f"NC(MZ=inf) != EM: {why}")
            else:
                s = _scale(tb)
                for k in tb:
                    d = run.maxabs(ta.get(k, np.nan) - tb[k])
                    # the Z terms are suppressed by Q2/MZ^2 ~ 1e-296: absolute floor far above that
                    v.metric("a:MZ=1e150", d / (1e-12 * s + 1e-200))
                    if not d <= 1e-12 * s + 1e-200:
                        v.fail(f"C13:a:decoupling-limit:{kind}", f"|NC(MZ=1e150)-EM|={d:.3e} scale {s:.3e} at {k}")
            if kind in ("F3", "gL", "g4") and case["mz"] == "inf" and _scale(ta) != 0.0:
                v.fail(f"C13:a:pv-nonzero:{kind}", "parity-violating structure function does not vanish without Z")
        # a PV observable is trivially zero on both sides; PC ones are the non-trivial ones
        v.nontrivial = nz
    elif cl == "b":
        ob2 = copy.deepcopy(ob)
        ob2["ProjectileDIS"] = "electron"
        ob2["PolarizationDIS"] = -ob["PolarizationDIS"]
        r1, r2 = run.run(th, ob)[name], run.run(th, ob2)[name]
        nz = False
        for a, b in zip(r1, r2):
            nz = nz or _scale(run.tensors(a)) > 0
            ok, why = run.bitwise_equal_res(a, b)
            if not ok:
                v.fail(f"C13:b:positron-vs-electron:{kind}", f"e+(P) != e-(-P): {why}")
        v.nontrivial = nz and ob["PolarizationDIS"] != 0 and ob["prDIS"] == "NC"
    elif cl == "c":
        pa, pb = ("neutrino", "antineutrino") if case["pair"] == "nu" else ("electron", "positron")
        o1, o2 = copy.deepcopy(ob), copy.deepcopy(ob)
        o1["ProjectileDIS"], o2["ProjectileDIS"] = pa, pb
        o1["PolarizationDIS"] = o2["PolarizationDIS"] = 0.0
        r1, r2 = run.run(th, o1)[name], run.run(th, o2)[name]
        sign = -1.0 if kind == "F3" else 1.0
        nz = False
        for a, b in zip(r1, r2):
            ta, tb = run.tensors(a), run.tensors(b)
            if list(ta) != list(tb):
                v.fail(f"C13:c:keys:{kind}", "order keys differ between conjugated runs")
                continue
            floor = run.noise_floor(ta, tb)
            for k in ta:
                s = max(run.maxabs(ta[k]), run.maxabs(tb[k]))
                nz = nz or s > 0
                d = run.maxabs(tb[k] - sign * _flip_rows(ta[k]))
                v.metric("c:conjugation", d / (RTOL * s + floor))
                if not d <= RTOL * s + floor:
                    v.fail(
                        f"C13:c:conjugation:{kind}:{case['meta']['heavyness']}",
                        f"O_{pb}[p] != {sign:+.0f} O_{pa}[-p]: |d|={d:.3e} scale {s:.3e} key {k}",
                    )
        v.nontrivial = nz
        if th["CKM"] != cards.CKM_STR:
            v.label("ckm:generated")
    else:
        res = run.run(th, ob)[name]
        nz = False
        for kin, r in zip(ob["observables"][name], res):
            nf = cards.nf_ref(th, kin["Q2"])
            ts = run.tensors(r)
            groups = [[q for q in (1, 3, 5) if q <= nf], [q for q in (2, 4, 6) if q <= nf]]
            floor = run.noise_floor(ts)
            for k, t in ts.items():
                s = run.maxabs(t)
                nz = nz or s > 0
                for g in groups:
                    for q in g[1:]:
                        for sgn in (1, -1):
                            d = run.maxabs(t[run.ROW[sgn * q]] - t[run.ROW[sgn * g[0]]])
                            v.metric("d:equal-charge", d / (RTOL * s + floor))
                            if not d <= RTOL * s + floor:
                                v.fail(
                                    f"C13:d:equal-charge-rows:{kind}",
                                    f"rows {sgn*q} and {sgn*g[0]} differ by {d:.3e} (scale {s:.3e}) key {k} nf={nf}",
                                )
            v.label(f"nf:{nf}")
        v.nontrivial = nz
    if v.nontrivial:
        v.label(f"nontrivial:{cl}")
    return v


def warmup():
    from .. import warm

    warm.import_all()
    warm.tiny_run()
