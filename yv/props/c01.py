"""C01 - operator entries are x times the convolution of the coefficient functions with the basis (differential)."""

import math
import warnings

import numpy as np
from hypothesis import strategies as st

from .. import basis, cards, configs, conv_ref, run
from ..engine import Verdict, guarded

ID = "C01"
RULE = (
    "Hypothesis draws an interpolation set-up (4-12 nodes, geometric/make_grid/linear/jittered layouts, degree 1-5, log or "
    "linear), a kinematic point relative to the grid (interior, exactly a node, node*(1+-1e-9), just above xmin, 1-10^-k) "
    "and a configuration (six kinds x heavyness x EM/NC/CC x all five schemes x NfFF x PTO 0-3, generated masses, EW "
    "parameters, target). Oracle: the kernels and weights are read from Combiner(esf).collect_elems(); for each kernel, "
    "order and basis function the convolution integral (regular, plus-distribution with its subtraction, local term) is "
    "recomputed by an independent engine (variable u=c/z, pieces between consecutive grid nodes, own Lagrange basis, scipy "
    "quad per piece at 1e-10, partonic thresholds as extra break points; the local term is not taken from the kernel's loc(x) but "
    "rebuilt as delta - int_0^c sing) at a convolution point typed independently (x; "
    "x(1+m2/Q2) for CC heavy; x(1+sqrt(1+4m2/Q2))/2 for NC intrinsic) and multiplied by that point; the weighted sum over "
    "kernels must equal the returned operator entry by entry. Non-trivial = some kernel with a singular or local part at "
    "order>=1 contributes a non-zero entry."
)
ASSUMPTIONS = [
    "tolerance |d| <= r_k * S per order k with S the absolute-value sum of all weighted piece integrals and "
    "r = (1e-8, 1e-6, 3e-5, 2e-3): yadism cuts 1e-10 off both ends of the z range where N^kLO integrands grow like "
    "ln^(2k-1)(1-z) and integrates with epsrel 1.5e-8 (typical agreement 2e-14, 4e-9, 9e-8, 2e-6; worst cases on steep "
    "low-degree bases next to a node 5e-7, 1e-5, 4e-4 - the cut alone is worth 1e-10*ln^5(1e-10) = 6e-4 at N3LO)",
    "plus 4e-10*23^(k-1)/(1-x): the documented 1e-10 border cut of the z range is a relative error of that size when x -> 1",
    "kernel list and weights are taken from the package (they are the subject of C02/C07/C12/C13); the mass entering the CC "
    "rescaling is the card mass of the observable's flavour, or for CC totals the kernel's own mass, which must be a card mass",
    "the independent engine uses eko's documented block rule for the basis but none of its code",
]
BUDGET = {"quick": {"examples": 3200, "wall": 600, "min_evaluations": 150}, "thorough": {"examples": 40000, "wall": 2400, "min_evaluations": 3000}}
MANDATORY = {
    t: ["nontrivial", "x:node", "x:offnode", "grid:log", "grid:linear", "shifted-convolution-point", "x:near-one", "pto:3", "family:heavy", "family:asy", "family:intrinsic", "cc-total-with-massive-component", "deep-grid"]
    for t in ("quick", "thorough")
}
SHRINK = {"quick": False, "thorough": True}
abbreviate = configs.abbreviate
RTOL = (1e-8, 1e-6, 3e-5, 2e-3)
HQ = {4: "mc", 5: "mb", 6: "mt"}


@st.composite
def cases(draw, tier="quick"):
    cfg = draw(configs.config(max_pto=3, targets=("proton", "proton", "ZA"), grid_kw={"nmax": 10}, n_points=(1, 1), q2range=(1.5, 1e5)))
    meta = cfg["meta"]
    if meta["process"] == "CC" and meta["scheme"] != "ZM-VFNS" and meta["heavyness"] == "total" and draw(st.booleans()):
        # half of the CC totals are replaced by one of their components
        h = draw(st.sampled_from(["light", "charm", "bottom", "top"]))
        name = f"{meta['kind']}_{h}"
        cfg["obs"]["observables"] = {name: cfg["obs"]["observables"][meta["name"]]}
        meta["heavyness"], meta["name"] = h, name
    if meta["scheme"] == "ZM-VFNS" and draw(st.integers(0, 3)) == 0:
        # grids as deep as the ones used in fits (xmin 1e-5 ... 3e-8) and x near their lower edge: what is lost or gained at the
        # lower end of the z range, z -> x, is a relative 1/x effect in the column of the last node (massless kernels only: the
        # massive library leaves its domain there, which is C16's and C08's subject)
        grid = draw(cards.grids(nmax=10, umin=5.0, umax=7.5))
        cards.apply_grid(cfg["obs"], grid)
        kin = cfg["obs"]["observables"][meta["name"]][0]
        kin["x"] = draw(cards.x_in_grid(grid, classes=["above_xmin", "above_xmin", "node", "interior", "near_node"]))[0]
        meta["deep_grid"] = True
        meta["grid_family"] = grid["family"]
    configs.split_orders(draw, cfg["theory"], meta)
    return cfg


def conv_point(family, process, x, q2, m2):
    if family == "heavy" and process == "CC":
        return x * (1.0 + m2 / q2)
    if family == "intrinsic" and process != "CC":
        return x * (1.0 + math.sqrt(1.0 + 4.0 * m2 / q2)) / 2.0
    return x


def check_case(case):
    from yadism.coefficient_functions import Combiner

    v = Verdict()
    th, ob, meta = case["theory"], case["obs"], case["meta"]
    name = meta["name"]
    b = basis.Basis(ob["interpolation_xgrid"], ob["interpolation_polynomial_degree"], ob["interpolation_is_log"])
    b.selftest()
    out = run.run(th, ob)
    r = run.runner(th, ob)
    v.label("grid:log" if b.log else "grid:linear", f"pto:{meta['pto']}", f"scheme:{meta['scheme']}", f"process:{meta['process']}", f"kind:{meta['kind']}")
    if meta.get("deep_grid"):
        v.label("deep-grid")
    hvq = {"charm": 4, "bottom": 5, "top": 6}.get(meta["heavyness"])
    with warnings.catch_warnings(), np.errstate(all="ignore"):
        warnings.simplefilter("ignore")
        for i, esf in enumerate(r.observables[name].elements):
            x, q2 = float(esf.x), float(esf.Q2)
            v.label("x:node" if x in b.x else "x:offnode")
            if x > 1 - 1e-3:
                v.label("x:near-one")
            kernels = guarded(lambda: Combiner(esf).collect_elems())
            ref, sca = {}, {}
            zthr = [1.0 / (1.0 + 4.0 * th[m] ** 2 / q2) for m in ("mc", "mb", "mt")]
            interesting = False
            for ker in kernels:
                cls = type(ker.coeff)
                family = cls.__module__.replace("yadism.coefficient_functions.", "").split(".")[0]
                v.label(f"family:{family}")
                m2 = None
                if family == "intrinsic":
                    ihq = max(abs(p) for p in ker.partons)
                    m2 = th[HQ[ihq]] ** 2
                elif family == "heavy" and meta["process"] == "CC":
                    # the mass of the produced quark: from the observable name, else from the kernel (it must be a card mass)
                    km2 = q2 * (1.0 / float(ker.coeff.labda) - 1.0)  # the kernel stores lambda = 1/(1+m2/Q2) only
                    cand = [th[HQ[hvq]] ** 2] if hvq is not None else [th[m] ** 2 for m in ("mc", "mb", "mt")]
                    hit = sorted((abs(c2 - km2), c2) for c2 in cand if abs(c2 - km2) <= 1e-9 * c2 + 1e-14 * q2)
                    hit = [h[1] for h in hit]
                    if not hit:
                        v.fail(f"C01:heavy-mass:{meta['process']}", f"{name}: CC heavy kernel {cls.__name__} carries m2={km2!r}, not a mass of the card {cand}")
                        continue
                    m2 = hit[0]
                    if hvq is None:
                        v.label("cc-total-with-massive-component")
                c = conv_point(family, meta["process"], x, q2, m2)
                if c != x:
                    v.label("shifted-convolution-point")
                part = np.array([ker.partons.get(p, 0.0) for p in run.PIDS])
                for o in range(meta["pto"] + 1):
                    if not ker.has_order(o):
                        continue
                    rsl = guarded(ker.coeff[o])
                    if rsl is None:
                        continue
                    ival, isca = conv_ref.convolve(rsl, b, c, zbreaks=zthr if family == "heavy" else (), derive_loc=True)
                    ref[o] = ref.get(o, 0.0) + np.outer(part, c * ival)
                    sca[o] = sca.get(o, 0.0) + np.outer(np.abs(part), c * isca)
                    if o >= 1 and (rsl.sing is not None or rsl.loc is not None) and np.any(ival != 0) and np.any(part != 0):
                        interesting = True
            got = run.tensors(out[name][i])
            for o in range(meta["pto"] + 1):
                t = got[(o, 0, 0, 0)]
                rf = ref.get(o, np.zeros_like(t))
                sc = sca.get(o, np.zeros_like(t))
                s = float(np.max(sc)) if np.size(sc) else 0.0
                d = np.abs(t - rf)
                dm = float(np.max(d))
                # documented border cut of the integration range: eps=1e-10 relative at both ends of [x,1]
                # (the cut region carries ln^(2o-1)(1-z) enhanced integrands: factor |ln 1e-10|^(o-1))
                tol = (RTOL[o] + (4e-10 * 23.0 ** max(o - 1, 0) / (1.0 - x) if x < 1 else 0.0)) * s + 1e-300
                v.metric(f"order{o}", dm / tol if s > 0 else (0.0 if dm == 0 else float("inf")))
                if not dm <= tol:
                    bad = np.unravel_index(np.argmax(d), d.shape)
                    v.fail(
                        f"C01:convolution:{meta['process']}:{'heavy' if meta['scheme'] != 'ZM-VFNS' else 'light'}:order{o}",
                        f"{name} ({meta['scheme']}, {meta['process']}) x={x!r} Q2={q2!r}: operator entry pid {run.PIDS[bad[0]]} node {bad[1]} at order {o} is {t[bad]!r}, "
                        f"reference convolution {rf[bad]!r} (|d|={dm:.3e}, scale {s:.3e}, grid {b.x}, degree {b.d}, log {b.log})",
                    )
            if interesting:
                v.nontrivial = True
    if v.nontrivial:
        v.label("nontrivial")
    return v


def warmup():
    from .. import warm

    warm.import_all()
    warm.tiny_run()
