"""C07 - heavyness, FONLL-part and coupling-restricted results add up (multi-observable / multi-run sums)."""

import copy

import numpy as np
from hypothesis import strategies as st

from .. import cards, configs, run
from ..engine import Verdict

ID = "C07"
RULE = (
    "Hypothesis draws a relation family and a complete run card (structure functions, one case in four a cross-section kind): (a) FFNS/FFN0 any NfFF: F_total = F_light + "
    "sum of F_h over the massive quarks h>NfFF (for NfFF=3 literally light+charm+bottom+top), all five "
    "observables requested in one run; (b) ZM-VFNS: total = light; (c) FONLL-FFNS/FFN0: run with "
    "FONLLParts=full = massless run + massive run; (d) EM/NC: sum of the six NCPositivityCharge runs = "
    "unrestricted run (None and 'all'). The identity is checked for every order key (scale-variation keys "
    "included) and operator entry. Non-trivial = at least two summands are non-zero (for b: tensors non-zero)."
)
ASSUMPTIONS = [
    "for NfFF>=4 the partition asserted is total = light + sum_{h>NfFF} F_h, the one fns.rst defines "
    "(F_charm is then the 'heavylight' part inside light)",
    "tolerance 1e-11 of max(|summands|,|total|) per key: pure re-association of sums",
    "configurations excluded by construction (documented gaps, explicitly rejected by the code): polarised CC, polarised N3LO, TMC for gL/g4",
]
BUDGET = {"quick": {"examples": 1600, "wall": 400}, "thorough": {"examples": 45000, "wall": 2400}}
MANDATORY = {
    t: ["family:a", "family:b", "family:c", "family:d", "nontrivial:a", "nontrivial:b", "nontrivial:c", "nontrivial:d", "sv:on", "xs"]
    for t in ("quick", "thorough")
}
SHRINK = {"quick": False, "thorough": True}
abbreviate = configs.abbreviate
RTOL = 1e-11
HEAVY = ["charm", "bottom", "top"]
CHARGES = ["up", "down", "strange", "charm", "bottom", "top"]


@st.composite
def cases(draw, tier="quick"):
    fam = draw(st.sampled_from(["a", "a", "b", "c", "c", "d", "d"]))
    # structure functions and (one case in four) the cross sections built on them: both are linear in the kernels
    common = dict(kinds=cards.SFS * 3 + configs.XS_KINDS, max_pto=3, sv=True, tmcs=(0, 0, 0, 0, 1, 2, 3), targets=("proton", "ZA"), grid_kw={"nmax": 9},
                  x_classes=["interior", "node", "near_node", "large"])
    if fam == "a":
        cfg = draw(configs.config(schemes=("FFNS", "FFN0"), heavynesses=("total",), **common))
    elif fam == "b":
        cfg = draw(configs.config(schemes=("ZM-VFNS",), heavynesses=("total",), **common))
    elif fam == "c":
        cfg = draw(configs.config(schemes=("FONLL-FFNS", "FONLL-FFN0"), **common))
    else:
        cfg = draw(configs.config(processes=("EM", "NC"), **common))
    th, meta = cfg["theory"], cfg["meta"]
    if th["TMC"] and meta["pto"] > 1:
        th["PTO"] = meta["pto"] = 1
    if (th["RenScaleVar"] or th["FactScaleVar"]) and meta["pto"] > 2:
        th["PTO"] = meta["pto"] = 2
    if meta["kind"] in ("F2", "FL", "F3") and not th["TMC"] and draw(st.integers(0, 4)) == 0:
        # N3LO is otherwise rare (it excludes scale variations, TMC and the polarised kinds): one case in five is lifted to it
        th["PTO"] = meta["pto"] = 3
        th["RenScaleVar"] = th["FactScaleVar"] = False
    configs.split_orders(draw, th, meta)
    cfg["family"] = fam
    return cfg


def _sum_check(v, total, parts, bucket, what):
    """total, parts: dict key -> tensor"""
    nz_parts = 0
    for p in parts:
        if any(run.maxabs(t) > 0 for t in p.values()):
            nz_parts += 1
    floor = run.noise_floor(total, *parts)
    for k, t in total.items():
        acc = np.zeros_like(t)
        s = run.maxabs(t)
        for p in parts:
            if k in p:
                acc = acc + p[k]
                s = max(s, run.maxabs(p[k]))
        d = run.maxabs(t - acc)
        v.metric(bucket.split(":")[1], d / (RTOL * s + floor))
        if not d <= RTOL * s + floor:
            v.fail(bucket, f"{what}: |total-sum|={d:.3e} scale {s:.3e} at key {k}")
    for p in parts:
        extra = set(p) - set(total)
        if extra and any(run.maxabs(p[k]) > 0 for k in extra):
            v.fail(bucket + ":keys", f"{what}: summand has non-zero keys {sorted(extra)} missing in the total")
    return nz_parts


def check_case(case):
    v = Verdict()
    th, ob, meta, fam = case["theory"], case["obs"], case["meta"], case["family"]
    kind, name = meta["kind"], meta["name"]
    kins = ob["observables"][name]
    sv_on = th["RenScaleVar"] or th["FactScaleVar"]
    v.label(f"family:{fam}", f"pto:{meta['pto']}", f"scheme:{meta['scheme']}", f"process:{meta['process']}",
            "sv:on" if sv_on else "sv:off", "tmc:on" if th["TMC"] else "tmc:off")
    if kind in configs.XS_KINDS:
        v.label("xs")
    nzmax = 0
    if fam in ("a", "b"):
        o = copy.deepcopy(ob)
        o["observables"] = {f"{kind}_{h}": copy.deepcopy(kins) for h in ["total", "light"] + HEAVY}
        out = run.run(th, o)
        nfff = th["NfFF"]
        for i in range(len(kins)):
            tot = run.tensors(out[f"{kind}_total"][i])
            if fam == "a":
                parts = [run.tensors(out[f"{kind}_light"][i])] + [
                    run.tensors(out[f"{kind}_{h}"][i]) for j, h in enumerate(HEAVY) if j + 4 > nfff
                ]
                what = f"{meta['scheme']} NfFF={nfff}: total = light + " + "+".join(h for j, h in enumerate(HEAVY) if j + 4 > nfff)
            else:
                parts = [run.tensors(out[f"{kind}_light"][i])]
                what = "ZM-VFNS: total = light"
            n = _sum_check(v, tot, parts, f"C07:{fam}:{meta['process']}:{kind}", what)
            nzmax = max(nzmax, n)
        v.nontrivial = nzmax >= (2 if fam == "a" else 1)
        if fam == "a":
            v.label(f"nfff:{nfff}")
    elif fam == "c":
        res = {}
        for part in ("full", "massless", "massive"):
            t = dict(th)
            t["FONLLParts"] = part
            res[part] = run.run(t, ob)[name]
        for i in range(len(kins)):
            n = _sum_check(
                v,
                run.tensors(res["full"][i]),
                [run.tensors(res["massless"][i]), run.tensors(res["massive"][i])],
                f"C07:c:{meta['process']}:{kind}:{meta['heavyness']}",
                f"{meta['scheme']} NfFF={th['NfFF']} {name}: full = massless + massive",
            )
            nzmax = max(nzmax, n)
        v.nontrivial = nzmax >= 2
    else:
        o = copy.deepcopy(ob)
        o["NCPositivityCharge"] = None
        full = run.run(th, o)[name]
        o["NCPositivityCharge"] = "all"
        alls = run.run(th, o)[name]
        parts = []
        for c in CHARGES:
            o["NCPositivityCharge"] = c
            parts.append(run.run(th, o)[name])
        for i in range(len(kins)):
            ok, why = run.bitwise_equal_res(full[i], alls[i])
            if not ok:
                v.fail(f"C07:d:all-vs-none:{kind}", f"NCPositivityCharge='all' differs from None: {why}")
            n = _sum_check(
                v,
                run.tensors(full[i]),
                [run.tensors(p[i]) for p in parts],
                f"C07:d:{meta['process']}:{kind}:{meta['heavyness']}",
                f"{meta['scheme']} {name}: unrestricted = sum over six single-quark coupling runs",
            )
            nzmax = max(nzmax, n)
        v.nontrivial = nzmax >= 2
    if v.nontrivial:
        v.label(f"nontrivial:{fam}")
    return v


def warmup():
    from .. import warm

    warm.import_all()
    warm.tiny_run()
