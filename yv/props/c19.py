"""C19 - predictions are stable under refinement of the interpolation grid (metamorphic: pairs of adequate grids)."""

import copy
import math
import warnings

import numpy as np
from hypothesis import strategies as st

from .. import cards, configs, pdfs, run
from ..engine import Verdict

ID = "C19"
RULE = (
    "(refine) Hypothesis draws two adequate grids - eko make_grid-type layouts (n_low>=20 logarithmic nodes below 0.1, n_mid>=15 "
    "linear nodes above), degree>=3, xmin<=x/20, log or linear interpolation, class 'fine' = both at least make_grid(30,20) with "
    "degree>=4 in log mode -, a smooth PDF family x^a(1-x)^b(1+cx) per flavour, x<=0.7 and a configuration (kinds, processes, schemes, "
    "PTO<=2, optionally scale variations at PTO 1, target-mass corrections 1-3 at PTO<=1 for structure functions smooth in x); both runs are contracted with the PDF per order key and must agree within "
    "eps*sum|O f/x| (eps = 2e-4 fine, 8e-3 coarse in log mode, 4e-2 with a linear-mode grid - 1e-1 if x<0.1, where linear-mode polynomials sit on logarithmically spaced nodes; measured over six seeds <=3.4e-5, <=1.3e-3, <=3.1e-2, later 4.3e-2 at x=0.07). (node) on one grid the operator at a node x_k and at x_k(1+-1e-8) must agree "
    "entrywise within (L*delta*ln^p(1/delta) + floor)*scale with delta=1e-11, L=1e3, p=(0,1,3,5) and a quadrature-noise floor (1e-12,1e-7, "
    "1e-6,1e-5) per order: the operator is continuous (with the log-enhanced modulus of plus-distributions), a jump is a defect of the "
    "convolution bookkeeping. "
    "Non-trivial = the grids differ in at least two of (size, degree, log mode, xmin) resp. the tensors are non-zero."
)
ASSUMPTIONS = [
    "adequacy rule and envelopes calibrated on the tree (make_grid(30,20) d4 vs (40,30) d5: <=4e-4; (20,15) d3: <=5e-3; linear mode d4: <=1.5e-2)",
    "geometric grids are not adequate above x~0.5 and are not generated for the refinement clause",
    "target-mass corrections (modes 1-3, PTO <= 1) are generated in the refinement clause for structure functions that are smooth in "
    "x (ZM-VFNS, or the light component of a massive scheme): the TMC integrals interpolate F(u) itself, and a massive heavy-quark "
    "F(u) has a threshold kink that first-order convergence does not bring within the envelopes",
    "refinement clause: x <= 0.7 and no shifted convolution point of a massive kernel (x(1+m2/Q2), x(1+sqrt(1+4m2/Q2))/2) inside (0.7, 1): "
    "closer to 1 the test PDFs (1-x)^b fall by orders of magnitude within one cell and the envelopes do not apply (seed 13: intrinsic charm at 0.956)",
]
BUDGET = {"quick": {"examples": 1600, "wall": 560, "min_evaluations": 300}, "thorough": {"examples": 25000, "wall": 2400, "min_evaluations": 2000}}
MANDATORY = {t: ["nontrivial", "clause:refine", "clause:node", "class:fine", "class:coarse", "mode:linear", "sv:on", "pto:2", "scheme:massive", "tmc:on", "grid-listed-unsorted"] for t in ("quick", "thorough")}
SHRINK = {"quick": False, "thorough": True}


# measured maxima over 6 seeds (about 6500 refinement cases): fine 3.4e-5, coarse-log 1.3e-3, coarse-linear 3.1e-2
EPS = {"fine": 2e-4, "coarse-log": 8e-3, "coarse-linear": 4e-2}


def make_grid(nlow, nmid, xmin):
    low = [xmin * (0.1 / xmin) ** (i / nlow) for i in range(nlow)]
    mid = [0.1 + 0.9 * i / (nmid - 1) for i in range(nmid)]
    g = sorted(set(float(f"{x:.13g}") for x in low + mid))
    g[-1] = 1.0
    return g


@st.composite
def grid_spec(draw, fine, x):
    nlow = draw(st.integers(30, 40) if fine else st.integers(20, 30))
    nmid = draw(st.integers(20, 28) if fine else st.integers(15, 22))
    degree = draw(st.integers(4, 5) if fine else st.integers(3, 5))
    is_log = True if fine else draw(st.sampled_from([True, True, False]))
    xmin = min(x / 20.0, 10.0 ** (-draw(st.floats(2.5, 5.0))))
    return {"nlow": nlow, "nmid": nmid, "degree": degree, "log": is_log, "xmin": float(f"{xmin:.6g}")}


def shift_factors(th, q2):
    out = []
    for m in ("mc", "mb", "mt"):
        r = th[m] ** 2 / q2
        out += [1.0 + r, (1.0 + math.sqrt(1.0 + 4.0 * r)) / 2.0]
    return out


@st.composite
def cases(draw, tier="quick"):
    clause = draw(st.sampled_from(["refine", "refine", "node"]))
    cfg = draw(
        configs.config(
            kinds=("F2", "FL", "F3", "g1"),
            max_pto=2,
            targets=("proton",),
            n_points=(1, 1),
            q2range=(2.0, 1e4),
            grid_kw={"nmin": 6, "nmax": 12, "umin": 2.0, "umax": 4.0},
            x_classes=["node"] if clause == "node" else ["interior"],
            ew=False,
            tmcs=(0,) if clause == "node" else (0, 0, 0, 1, 2, 3),
        )
    )
    th, ob, meta = cfg["theory"], cfg["obs"], cfg["meta"]
    if th.get("TMC") and not (meta["scheme"] == "ZM-VFNS" or meta["heavyness"] == "light"):
        # the target-mass integrals interpolate F(u) itself over the grid: a massive heavy-quark F(u) has a threshold kink
        # in u (and intrinsic pieces live at shifted points up to 1), which no generated grid resolves to the envelopes
        th["TMC"] = meta["tmc"] = 0
    if th.get("TMC") and meta["pto"] > 1:
        # a target-mass corrected point costs one evaluation per grid node: NLO at most
        th["PTO"] = meta["pto"] = 1
    cfg["clause"] = clause
    kin = ob["observables"][meta["name"]][0]
    if clause == "refine":
        x = round(draw(st.floats(math.log(1e-3), math.log(0.7)).map(math.exp)), 6)
        # massive kernels are convolved at a shifted point (x(1+m2/Q2) CC heavy, x(1+sqrt(1+4m2/Q2))/2 intrinsic): no such
        # point may fall into (0.7, 1), where the generated PDFs (1-x)^b are not resolved by any grid to the stated accuracy
        for _ in range(6):
            shifted = [x * f for f in shift_factors(th, kin["Q2"]) if 0.7 < x * f < 1.0]
            if not shifted:
                break
            x = float(f"{x * 0.7 / max(shifted) * (1 - 1e-6):.6g}")
        kin["x"] = x
        fine = draw(st.booleans())
        cfg["fine"] = fine
        cfg["grids"] = [draw(grid_spec(fine, x)), draw(grid_spec(fine, x))]
        if meta["pto"] <= 1 and draw(st.integers(0, 3)) == 0:
            th["PTO"] = meta["pto"] = 1
            th["RenScaleVar"] = th["FactScaleVar"] = True
            for g in cfg["grids"]:
                g["nlow"], g["nmid"] = min(g["nlow"], 22), min(g["nmid"], 16)
            cfg["fine"] = False
        if meta["scheme"] != "ZM-VFNS" and meta["pto"] == 2 and meta["heavyness"] != "light":
            # massive NNLO kernels on 60-node grids are too expensive: keep the smaller adequate grids (the light component, whose
            # only massive pieces are the cheap 'missing' corrections, keeps the fine ones)
            for g in cfg["grids"]:
                g["nlow"], g["nmid"] = min(g["nlow"], 24), min(g["nmid"], 16)
            cfg["fine"] = False
        # the order in which the card lists the nodes is not part of the grid: the second grid is listed ascending, descending or shuffled
        cfg["listed"] = draw(st.sampled_from(["ascending", "ascending", "ascending", "descending", "shuffled"]))
        cfg["shuffle_seed"] = draw(st.integers(0, 10**6))
        cfg["pdf"] = {}
        for pid in pdfs.ALL:
            cfg["pdf"][str(pid)] = [round(draw(st.floats(0.2, 2.0)), 3), round(draw(st.floats(-0.3, 0.6)), 3), round(draw(st.floats(2.5, 5.0)), 3), round(draw(st.floats(-0.5, 2.0)), 3), 0.0]
    else:
        cfg["side"] = draw(st.sampled_from([1, -1]))
        if draw(st.integers(0, 2)) == 0 and meta["pto"] >= 1:
            th["PTO"] = meta["pto"] = 1
            th["RenScaleVar"] = th["FactScaleVar"] = True
    return cfg


def contract(res, grid, pdf, q2):
    """per order key: (sum O f/x, sum |O f/x|)"""
    f = np.zeros((14, len(grid)))
    for i, pid in enumerate(run.PIDS):
        for j, xj in enumerate(grid):
            f[i, j] = pdf.xfxQ2(pid, xj, q2) / xj
    out = {}
    for k, t in run.tensors(res).items():
        terms = t * f
        out[k] = (float(terms.sum()), float(np.abs(terms).sum()))
    return out


def check_case(case):
    v = Verdict()
    th, ob, meta, cl = case["theory"], copy.deepcopy(case["obs"]), case["meta"], case["clause"]
    name = meta["name"]
    sv_on = th.get("RenScaleVar") or th.get("FactScaleVar")
    if th.get("TMC"):
        v.label("tmc:on", f"tmc:{th['TMC']}")
    v.label(f"clause:{cl}", f"pto:{meta['pto']}", "sv:on" if sv_on else "sv:off", "scheme:massive" if meta["scheme"] != "ZM-VFNS" else "scheme:ZM-VFNS", f"kind:{meta['kind']}")
    kin = ob["observables"][name][0]
    with warnings.catch_warnings(), np.errstate(all="ignore"):
        warnings.simplefilter("ignore")
        if cl == "refine":
            pdf = pdfs.SmoothPDF(case["pdf"], q2dep=False)
            preds = []
            for ig, g in enumerate(case["grids"]):
                grid = make_grid(g["nlow"], g["nmid"], g["xmin"])
                listed = case.get("listed", "ascending") if ig == 1 else "ascending"
                if listed == "descending":
                    grid = grid[::-1]
                elif listed == "shuffled":
                    import random

                    random.Random(case["shuffle_seed"]).shuffle(grid)
                if listed != "ascending":
                    v.label("grid-listed-unsorted")
                o = copy.deepcopy(ob)
                o["interpolation_xgrid"] = grid
                o["interpolation_polynomial_degree"] = g["degree"]
                o["interpolation_is_log"] = g["log"]
                out = run.run(th, o)
                # the prediction is formed as a user forms it: PDF values at the nodes the output records
                preds.append(contract(out[name][0], [float(x) for x in out["xgrid"]["grid"]], pdf, kin["Q2"]))
            fine = case["fine"]
            v.label("class:fine" if fine else "class:coarse")
            if not all(g["log"] for g in case["grids"]):
                v.label("mode:linear")
            sub = "fine" if fine else ("coarse-log" if all(g["log"] for g in case["grids"]) else "coarse-linear")
            eps = EPS[sub]
            if sub == "coarse-linear" and kin["x"] < 0.1:
                # polynomials in x on the logarithmically spaced nodes below 0.1: not an adequate set-up in the sense of the envelopes
                # (4.3e-2 on a scale-variation key at x=0.07, seed 4); kept in the clause with a 10 % envelope
                eps = 1e-1
            ga, gb = case["grids"]
            ndiff = sum([ga["nlow"] + ga["nmid"] != gb["nlow"] + gb["nmid"], ga["degree"] != gb["degree"], ga["log"] != gb["log"], ga["xmin"] != gb["xmin"]])
            nz = False
            for k in preds[0]:
                (fa, sa), (fb, sb) = preds[0][k], preds[1].get(k, (0.0, 0.0))
                s = max(sa, sb)
                d = abs(fa - fb)
                if s > 0:
                    nz = True
                v.metric(f"refine:{sub}", d / (eps * s + 1e-300))
                if not d <= eps * s + 1e-300:
                    v.fail(
                        f"C19:refine:{'fine' if fine else 'coarse'}:{meta['process']}:{meta['kind']}:{'sv' if (k[2] or k[3]) else 'central'}",
                        f"{name} ({meta['process']}, {meta['scheme']}) x={kin['x']} Q2={kin['Q2']}: key {k} prediction {fa!r} on grid A {ga} vs {fb!r} on grid B {gb}: |d|/S = {d/(s+1e-300):.3e} > {eps}",
                    )
            v.nontrivial = nz and ndiff >= 2
        else:
            x0 = kin["x"]
            delta = 1e-11
            o = copy.deepcopy(ob)
            x1 = x0 * (1 + case["side"] * delta)
            if x1 >= 1.0 or x1 <= o["interpolation_xgrid"][0]:
                v.rejected = True
                return v
            o["observables"] = {name: [{"x": x0, "Q2": kin["Q2"]}, {"x": x1, "Q2": kin["Q2"]}]}
            r = run.run(th, o)[name]
            ta, tb = run.tensors(r[0]), run.tensors(r[1])
            nz = False
            for k in ta:
                s = max(run.maxabs(ta[k]), run.maxabs(tb[k]))
                d = run.maxabs(ta[k] - tb[k])
                if s > 0:
                    nz = True
                # continuity with the log-enhanced modulus of N^kLO plus-distributions: the kink of the basis at the node sits at
                # z = 1-delta, where the integrand goes like ln^(2k-1)(1-z)/(1-z); plus a quadrature-noise floor
                p_o = (0, 1, 3, 5)[min(k[0], 3)]
                floor = (1e-12, 1e-7, 1e-6, 1e-5)[min(k[0], 3)]
                lim = (1e3 * delta * math.log(1.0 / delta) ** p_o + floor) * s + 1e-300
                v.metric("node-continuity", d / lim)
                if not d <= lim:
                    bad = np.unravel_index(np.argmax(np.abs(ta[k] - tb[k])), ta[k].shape)
                    v.fail(
                        f"C19:node-jump:{meta['process']}:{'sv' if (k[2] or k[3]) else 'central'}:order{k[0]}",
                        f"{name} ({meta['process']}, {meta['scheme']}): key {k} jumps across the node x={x0!r} (side {case['side']:+d}): entry pid {run.PIDS[bad[0]]} node {bad[1]}: {ta[k][bad]!r} vs {tb[k][bad]!r} (|d|={d:.3e}, scale {s:.3e})",
                    )
            v.nontrivial = nz
    if v.nontrivial:
        v.label("nontrivial")
    return v


def abbreviate(case):
    c = configs.abbreviate({k: v for k, v in case.items() if k != "pdf"})
    if "grids" in case:
        c["obs"] = {k: v for k, v in c["obs"].items() if k != "interpolation_xgrid"}
    return c


def warmup():
    from .. import warm

    warm.import_all()
    warm.tiny_run()
