"""C11 - cross sections are the documented linear combinations of the structure functions of the same run."""

import copy
import math

import numpy as np
from hypothesis import strategies as st

from .. import cards, configs, run
from ..engine import Verdict

ID = "C11"
RULE = (
    "Hypothesis draws one of the ten cross-section kinds x heavyness x process x projectile x scheme x "
    "PTO 0-3 x TMC {0,1,2,3} x scale-variation switches, generated MP/MW/GF, grid, (x,Q2) and y in (0,1] "
    "(including y=1 and y=1e-6); the run also requests F2/FL/F3 (g4/gL for g5) of the same heavyness at the "
    "same points. Oracle: coefficient table (N, y+, y-, yL, sign) typed from docs/theory/intro.rst and the "
    "textbook nu-N cross section; O_XS[k] = a O_F2[k] + b O_FL[k] + c O_F3[k] for every order key. "
    "Non-trivial = the F3 coefficient is non-zero and O_F3 != 0, or (kinds without F3 term) O_FL != 0."
)
ASSUMPTIONS = [
    "XSFPFCC: intro.rst prints 8 pi in the normalisation; the textbook d2sigma/dxdQ2 = d2sigma/dxdy/(2MEx) and the "
    "page's own XSCHORUSCC give 4 pi, which is what the oracle uses (documentation typo, not a code finding); "
    "unit conversion 1 GeV^-2 = 3.893793e10 x 1e-38 cm^2 = 3.893793e8 pb",
    "errors are not asserted (the property speaks of values)",
    "configurations excluded by construction (documented gaps, explicitly rejected by the code): polarised CC, polarised N3LO, "
    "TMC for gL/g4 (hence g5 with TMC)",
]
BUDGET = {"quick": {"examples": 2400, "wall": 400}, "thorough": {"examples": 40000, "wall": 2400}}
MANDATORY = {
    t: ["nontrivial", "tmc:on", "sv:on", "y:1", "antilepton"] + [f"kind:{k}" for k in configs.XS_KINDS]
    for t in ("quick", "thorough")
}
SHRINK = {"quick": False, "thorough": True}
abbreviate = configs.abbreviate
RTOL = 1e-11
CONV = 3.893793e10  # GeV^-2 -> 1e-38 cm^2


def coefficients(kind, x, q2, y, proj, mp, mw, gf):
    """(a, b, c) on (F2, FL, xF3) resp. (g4, gL, 2xg1)."""
    yp = 1 + (1 - y) ** 2
    ym = 1 - (1 - y) ** 2
    yl = y * y
    sgn = -1.0 if proj in ("positron", "antineutrino") else 1.0
    if kind in ("F1", "g5"):
        return 1.0, -1.0, 0.0
    if kind == "XSHERANCAVG":
        return 1.0, -yl / yp, 0.0
    if kind == "XSHERANC":
        return 1.0, -yl / yp, sgn * ym / yp
    if kind == "XSHERACC":
        return yp / 4, -yl / 4, sgn * ym / 4
    if kind == "FW":
        ylw = yl / (2 * (yl / 2 + (1 - y) - (mp * x * y) ** 2 / q2))
        return 1.0, -ylw, 0.0
    prop = 1.0 / (1 + q2 / mw**2) ** 2
    if kind == "XSFPFCC":
        n = (CONV / 100.0) * gf**2 / (4 * math.pi * x) * prop
        return n * yp, -n * yl, n * sgn * ym
    ypc = yp - 2 * (x * y * mp) ** 2 / q2
    if kind == "XSCHORUSCC":
        n = CONV * gf**2 * mp / (2 * math.pi) * prop
    elif kind == "XSNUTEVCC":
        n = 100.0 / 2.0 * prop
    elif kind == "XSNUTEVNU":
        n = CONV * gf**2 * mp / (2 * math.pi)
    else:
        raise KeyError(kind)
    return n * ypc, -n * yl, n * sgn * ym


@st.composite
def cases(draw, tier="quick"):
    cfg = draw(
        configs.config(
            kinds=configs.XS_KINDS,
            max_pto=3,
            tmcs=(0, 0, 0, 1, 2, 3),
            sv=True,
            targets=("proton", "ZA", "iron"),
            grid_kw={"nmax": 9},
            x_classes=["interior", "node", "near_node", "large"],
        )
    )
    th, meta = cfg["theory"], cfg["meta"]
    if th["TMC"] and meta["pto"] > 1:
        th["PTO"] = meta["pto"] = 1
    if (th["RenScaleVar"] or th["FactScaleVar"]) and meta["pto"] > 2:
        th["PTO"] = meta["pto"] = 2
    th["MP"] = round(draw(st.floats(0.3, 3.0)), 4)
    th["GF"] = draw(st.sampled_from([1.1663787e-05, 1.0, 2.5e-5]))
    if "MW" not in th or draw(st.booleans()):
        th["MW"] = round(draw(st.floats(20.0, 200.0)), 3)
    configs.split_orders(draw, th, meta)
    return cfg


def check_case(case):
    v = Verdict()
    th, ob, meta = case["theory"], case["obs"], case["meta"]
    kind, name, hv = meta["kind"], meta["name"], meta["heavyness"]
    kins = ob["observables"][name]
    pol = kind == "g5"
    sfk = ("g4", "gL", "g1") if pol else ("F2", "FL", "F3")
    o = copy.deepcopy(ob)
    sfkin = [{"x": k["x"], "Q2": k["Q2"]} for k in kins]
    for s in sfk:
        o["observables"][f"{s}_{hv}"] = copy.deepcopy(sfkin)
    sv_on = th["RenScaleVar"] or th["FactScaleVar"]
    proj = ob["ProjectileDIS"]
    v.label(f"kind:{kind}", "tmc:on" if th["TMC"] else "tmc:off", "sv:on" if sv_on else "sv:off", f"pto:{meta['pto']}",
            f"process:{meta['process']}")
    if proj in ("positron", "antineutrino"):
        v.label("antilepton")
    out = run.run(th, o)
    nz = False
    for i, kin in enumerate(kins):
        if kin["y"] == 1.0:
            v.label("y:1")
        a, b, c = coefficients(kind, kin["x"], kin["Q2"], kin["y"], proj, th["MP"], th["MW"], th["GF"])
        xs = run.tensors(out[name][i])
        t1, t2, t3 = (run.tensors(out[f"{s}_{hv}"][i]) for s in sfk)
        if set(xs) != set(t1):
            v.fail(f"C11:keys:{kind}", f"order keys of the cross section {sorted(xs)} differ from those of {sfk[0]} {sorted(t1)}")
            continue
        r = out[name][i]
        if not (r.x == kin["x"] and r.Q2 == kin["Q2"] and getattr(r, "y", None) == kin["y"]):
            v.fail(f"C11:kinematics:{kind}", "returned kinematics differ from the requested ones")
        floor = max(abs(a), abs(b), abs(c)) * run.noise_floor(t1, t2, t3)
        for k in xs:
            exp = a * t1[k] + b * t2[k] + c * t3[k]
            s = abs(a) * run.maxabs(t1[k]) + abs(b) * run.maxabs(t2[k]) + abs(c) * run.maxabs(t3[k])
            d = run.maxabs(xs[k] - exp)
            v.metric("combination", d / (RTOL * s + floor))
            if not d <= RTOL * s + floor:
                v.fail(
                    f"C11:combination:{kind}",
                    f"{name} != {a:.6g}*{sfk[0]} + {b:.6g}*{sfk[1]} + {c:.6g}*{sfk[2]}: |d|={d:.3e} scale {s:.3e} key {k} "
                    f"(x={kin['x']}, Q2={kin['Q2']}, y={kin['y']}, {proj})",
                )
            if (c != 0 and run.maxabs(t3[k]) > 0) or (c == 0 and run.maxabs(t2[k]) > 0):
                nz = True
    v.nontrivial = nz
    if nz:
        v.label("nontrivial")
    return v


def warmup():
    from .. import warm

    warm.import_all()
    warm.tiny_run()
