"""C08 - FFN0 is the high-virtuality limit of the massive FFNS calculation (limit relation over a Q2/m2 ladder)."""

import copy
import math
import warnings

import numpy as np
from hypothesis import strategies as st

from .. import basis, cards, configs, run
from ..engine import Verdict, YadismError

ID = "C08"
RULE = (
    "Hypothesis draws a heavy flavour (charm with NfFF=3 or bottom with NfFF=4; heavier quarks get the same mass so that every "
    "massive piece is in the asymptotic regime), its mass, a grid, x between the lower grid edge (1e-4..3e-3) and 0.7 on/off nodes, process/kind from {NC,EM: F2, FL, g1; "
    "CC: F2, FL, F3}, target (proton, neutron, iron, generated Z/A), heavyness {heavy flavour, light (missing), total}, PTO 0-2 and a ladder xi=Q2/m2 = 1e2,1e3,1e4,1e5,1e6 plus a "
    "generated intermediate value; FFNS and FFN0 are run on the same card. Oracle per order key and operator entry: "
    "D(xi) = max|O_FFNS - O_FFN0| / S with S = max(|O_FFN0 entries| at that xi, LO F2 parton-model entries) must satisfy "
    "D(xi) <= max(kappa A_o, P) s(xi) + 2e-4 with s(xi) = (1+ln xi)^(2o)/xi, P = 3 max_{xi<=1e4} D(xi)/s(xi), A = (30, 10, 1), kappa = max(1, (1+G)/3), G = max_j |dp_j/dln x| of the grid's basis next to x, and D(1e6) <= P s(1e6) + 1e-4. (every xi<=1e4 is an anchor: the difference can be accidentally small at one xi). Requests the massive library "
    "refuses ('high virtuality limit not known') are rejections. Non-trivial = FFNS and FFN0 tensors non-zero and different at xi=1e2."
)
ASSUMPTIONS = [
    "envelope constants calibrated on the tree: measured prefactors 3.1 (LO), <=0.9 (NLO), <=0.03 (NNLO) - margins 10x-30x; the floor "
    "2e-4 covers LeProHQ/quadrature noise at xi=1e6 (measured 7e-5)",
    "the prefactor of the power law belongs to the grid: massive kernels of the heavy quark's own rows and of CC are evaluated at x(1+O(1/xi)), "
    "so at fixed xi the operators differ by (1+G)/xi with G the logarithmic derivative of the basis functions (up to 75 for degree-5 blocks at the "
    "grid edge or linear-mode grids near x=0.7), and basis functions that probe small z see larger coefficients of the power correction - the prefactor "
    "therefore scales with kappa and is never smaller than three times the one observed at xi=1e2; what is asserted is the fall-off from there. The first "
    "version used constants and raised three false alarms in the first thorough run over the extended x range",
    "limit relation: detects wrong powers, logarithms and O(1%) coefficient errors, not digit-level changes",
    "domain as in the property's quantifier: NC F2/FL, g1 where LeProHQ allows, CC F2/FL/F3 (NC F3, g4, gL have no asymptotic counterpart)",
]
BUDGET = {"quick": {"examples": 320, "wall": 500, "min_evaluations": 100}, "thorough": {"examples": 6000, "wall": 2400, "min_evaluations": 1500}}
MANDATORY = {
    t: ["nontrivial", "process:NC", "process:CC", "heavyness:heavy", "heavyness:light", "heavyness:total", "order:1", "order:2", "kind:F2", "kind:FL", "kind:g1", "kind:F3", "h:charm", "h:bottom", "small-x:eta>1e8-reached", "target:other", "heavier-quarks-non-degenerate"]
    for t in ("quick", "thorough")
}
SHRINK = {"quick": False, "thorough": True}
abbreviate = configs.abbreviate
LADDER = [1e2, 1e3, 1e4, 1e5, 1e6]
A = (30.0, 10.0, 1.0)
FLOOR = 2e-4


@st.composite
def cases(draw, tier="quick"):
    h = draw(st.sampled_from(["charm", "charm", "bottom"]))
    nfff = 3 if h == "charm" else 4
    process = draw(st.sampled_from(["NC", "NC", "EM", "CC", "CC"]))
    kind = draw(st.sampled_from(["F2", "FL", "F3"] if process == "CC" else ["F2", "FL", "g1"]))
    hv = draw(st.sampled_from([h, h, "light", "total", "total"]))
    if process == "CC" and hv == "light":
        hv = "total"  # no missing diagrams in CC: light is trivially identical
    pto = draw(st.sampled_from([0, 1, 1, 2, 2]))
    m = round(draw(st.floats(1.2, 5.0)), 3)
    th = cards.theory(PTO=pto, NfFF=nfff)
    # the heavier quarks: degenerate with h, or heavier by generated ratios (their own Q2/m2 is then lower by the ratio squared: same
    # power law, larger prefactor, which the anchored envelope absorbs) - each massive quark must meet its own asymptotic counterpart
    # (ratios up to 6 were tried first: the heaviest quark then sits at Q2/m2 36 times lower than the ladder says, is below or near its
    # threshold at the anchoring end and decays visibly later - three false alarms of the decay criterion in a thorough run of 8104
    # cases; with ratios up to 1.56 its envelope is at most 1.9 times the one of the tested quark, inside the factor 3 of the criteria)
    r1 = draw(st.sampled_from([1.0, 1.0, 1.25]))
    r2 = r1 * draw(st.sampled_from([1.0, 1.25]))
    if h == "charm":
        th.update({"mc": m, "mb": round(m * r1, 4), "mt": round(m * r2, 4)})
    else:
        th.update({"mc": 1.0, "mb": m, "mt": round(m * r1, 4)})
    grid = draw(cards.grids(nmin=6, nmax=8, umin=2.5, umax=4.0))
    g = grid["xgrid"]
    # x anywhere in the grid below 0.7 (above, the massive side is below threshold for most of the ladder)
    cand = [x for x in g if x <= 0.7]
    if cand and draw(st.booleans()):
        x = draw(st.sampled_from(cand))
    else:
        x = float(f"{math.exp(draw(st.floats(math.log(g[0] * 1.02), math.log(0.7)))):.5g}")
    proj = draw(st.sampled_from(["electron", "positron"] if process == "EM" else cards.PROJECTILES))
    ob = cards.observables(prDIS=process, ProjectileDIS=proj)
    cards.apply_grid(ob, grid)
    # the ladder is one run of six points: on a target whose isospin rotation is neither the identity nor idempotent anything that
    # is carried from point to point on one side only (massive or asymptotic) breaks the limit
    tgt = draw(st.sampled_from(["proton", "proton", "neutron", "iron", "ZA"]))
    if tgt == "ZA":
        a_ = round(draw(st.floats(1.0, 240.0)), 3)
        tgt = {"A": a_, "Z": round(draw(st.floats(0.0, 1.0)) * a_, 3)}
    ob["TargetDIS"] = tgt
    xi_extra = 10.0 ** round(draw(st.floats(2.0, 6.0)), 2)
    name = f"{kind}_{hv}"
    return {"theory": th, "obs": ob, "x": x, "m": m, "xi_extra": xi_extra, "h": h,
            "meta": {"name": name, "kind": kind, "process": process, "pto": pto, "heavyness": hv, "scheme": "FFNS/FFN0"}}


def row_class(delta, hq):
    """which rows carry the largest deviation: g (gluon), intrinsic (the heavy quark's own rows), q-singlet (all light-quark rows
    deviate alike) or q-nonsinglet - the attribution that makes a bucket specific to one partonic channel"""
    mx = np.max(np.abs(delta), axis=1)
    r = int(np.argmax(mx))
    pid = run.PIDS[r]
    if pid == 21:
        return "g"
    if abs(pid) >= hq:
        return "intrinsic"
    # singlet-type kernels carry the same weight on every light quark and antiquark: the deviations of all rows coincide
    light = [mx[run.ROW[s * q]] for q in range(1, hq) for s in (1, -1)]
    return "q-singlet" if max(light) - min(light) <= 1e-6 * max(light) else "q-nonsinglet"


def steepness(b, x):
    """max_j |dp_j/dln u| for u between x and the most shifted convolution point of the ladder (x(1+1/xi), xi=100): the massive
    kernels of the heavy quark's own rows and of CC are evaluated at such shifted points, so at fixed xi the difference to the
    asymptotic operator is (1+G)/xi times the operator - the prefactor of the power law belongs to the grid, not to the code"""
    g = 0.0
    for u in (x, x * 1.0025, x * 1.005, x * 1.01):
        if u >= 1.0:
            continue
        h = 1e-6
        up, dn = b.all_p(min(u * (1 + h), 1.0)), b.all_p(u * (1 - h))
        g = max(g, float(np.max(np.abs(up - dn))) / (2 * h))
    return g


def eta_region(x, xi):
    """bucket suffix for points whose integration range reaches partonic eta = xi/4 (1/z-1) - 1 > 1e8 (z down to x)"""
    return ":eta>1e8" if xi / 4.0 * (1.0 / x - 1.0) - 1.0 > 1e8 else ""


def check_case(case):
    v = Verdict()
    th, ob, meta = case["theory"], copy.deepcopy(case["obs"]), case["meta"]
    if eta_region(case["x"], 1e6):
        v.label("small-x:eta>1e8-reached")
    name, kind, pto, x, m = meta["name"], meta["kind"], meta["pto"], case["x"], case["m"]
    hv = meta["heavyness"]
    xis = sorted(set(LADDER + [case["xi_extra"]]))
    bas = basis.Basis(ob["interpolation_xgrid"], ob["interpolation_polynomial_degree"], ob["interpolation_is_log"])
    kappa = max(1.0, (1.0 + steepness(bas, x)) / 3.0)
    if kappa > 3.0:
        v.label("steep-basis")
    kin = [{"x": x, "Q2": xi * m * m} for xi in xis]
    f2name = f"F2_{hv}"
    ob["observables"] = {name: kin}
    v.label("target:proton" if ob.get("TargetDIS", "proton") == "proton" else "target:other")
    if len({th["mc"], th["mb"], th["mt"]} - {1.0}) > 1:
        v.label("heavier-quarks-non-degenerate")
    v.label(f"process:{'NC' if meta['process'] != 'CC' else 'CC'}", f"kind:{kind}", f"h:{case['h']}",
            "heavyness:heavy" if hv == case["h"] else f"heavyness:{hv}")
    with warnings.catch_warnings(), np.errstate(all="ignore"):
        warnings.simplefilter("ignore")
        try:
            r_ffns = run.run(dict(th, FNS="FFNS"), ob)[name]
        except YadismError as e:
            if e.explicit and "not known" in e.msg:
                v.rejected = True
                v.label("rejected:leprohq-limit")
                return v
            raise
        r_ffn0 = run.run(dict(th, FNS="FFN0"), ob)[name]
        # absolute scale: LO parton-model entries of F2 of the light quarks (x * w ~ O(0.1))
        o2 = copy.deepcopy(ob)
        o2["observables"] = {"F2_light": kin}
        lo = run.run(dict(th, FNS="FFN0", PTO=0), o2)["F2_light"]
    nontrivial = False
    for o in range(pto + 1):
        v.label(f"order:{o}")
        ds, rc, ab = {}, {}, {}
        for i, xi in enumerate(xis):
            a = run.tensors(r_ffns[i])[(o, 0, 0, 0)]
            b = run.tensors(r_ffn0[i])[(o, 0, 0, 0)]
            s = max(run.maxabs(b), run.maxabs(run.tensors(lo[i])[(0, 0, 0, 0)]), 1e-300)
            ds[xi] = run.maxabs(a - b) / s
            ab[xi] = (a, b)
            if xi == 1e2 and ds[xi] > 0 and run.maxabs(a) > 0 and run.maxabs(b) > 0:
                nontrivial = True
        shape = lambda xi: (1.0 + math.log(xi)) ** (2 * o) / xi  # noqa: E731
        # prefactor of the power law: the calibrated constant, scaled with the steepness of the basis, or three times the one
        # observed at the lower end of the ladder - whichever is larger (it belongs to the grid and the z range a basis
        # function probes; the property is the fall-off from there)
        anchor = 3.0 * max(ds[xi] / shape(xi) for xi in xis if xi <= 1e4)
        pref = max(kappa * A[o], anchor)
        hv_ = "heavy" if hv == case["h"] else hv
        proc_ = "NC" if meta["process"] != "CC" else "CC"
        hq_ = 4 if case["h"] == "charm" else 5
        failed = False
        for xi in xis:
            d = ds[xi]
            env_ = pref * shape(xi) + FLOOR
            v.metric(f"envelope:o{o}", d / env_)
            if not d <= env_:
                rcl = row_class(ab[xi][0] - ab[xi][1], hq_)
                v.fail(
                    f"C08:limit:{proc_}:{kind}:{hv_}:order{o}:{rcl}{eta_region(x, xi)}{'@xi>=1e6' if xi >= 1e6 else ''}",
                    f"{name} ({meta['process']}, {case['h']} massive, m={m}) x={x}: |FFNS-FFN0|/S = {d:.3e} at Q2/m2={xi:.3g}, order {o}; allowed {env_:.3e} "
                    f"(prefactor {pref:.3g}); profile { {f'{k:.0e}': float(f'{val:.2e}') for k, val in ds.items()} }",
                )
                failed = True
                break
        if not failed:
            # fall-off between the lower part of the ladder and its upper end, without the calibrated constant: the difference
            # may be accidentally small at one value of xi (sign change), so every xi <= 1e4 is an anchor
            d2, d6 = ds[1e2], ds[1e6]
            lim = anchor * shape(1e6) + FLOOR
            v.metric(f"decay:o{o}", d6 / lim)
            if not d6 <= lim:
                rcl = row_class(ab[1e6][0] - ab[1e6][1], hq_)
                v.fail(
                    f"C08:decay:{proc_}:{kind}:{hv_}:order{o}:{rcl}{eta_region(x, 1e6)}",
                    f"{name} ({meta['process']}, {case['h']} massive, m={m}) x={x}: |FFNS-FFN0|/S does not decay: {d2:.3e} at Q2/m2=1e2, {d6:.3e} at 1e6 (order {o})",
                )
    v.nontrivial = nontrivial
    if nontrivial:
        v.label("nontrivial")
    return v


def warmup():
    from .. import warm

    warm.import_all()
    warm.tiny_run()
