"""C04 - massless coefficient functions obey sum rules and NLO closed forms (independent analytic oracles)."""

import math
import warnings

import numpy as np
from hypothesis import strategies as st
from scipy.integrate import quad
from scipy.special import digamma, polygamma, zeta

from ..engine import Verdict

ID = "C04"
RULE = (
    "Hypothesis draws z in (0,1) log-dense towards both ends, nf 3-6 and Mellin N from {1..12} and reals in [1.1,25]. "
    "(closed) NLO quark and gluon coefficients of F2, FL, F3, g1 (and the g4/gL classes built on them): reg(z)+sing(z) equals "
    "the literature closed form (a_s=alpha_s/4pi) typed independently, loc(0) equals the delta coefficient -(9+4 zeta2) CF; "
    "(moment) numerically integrated Mellin moments of the assembled RSL equal the analytic harmonic-sum expressions (quark) "
    "or the moments of the typed closed form (gluon); (sumrule) first moments: Adler (F2 nu-nubar non-singlet, orders 1-3) = 0, "
    "GLS/Bjorken (F3 and g1 non-singlet) = -4, -16(55/12-nf/3), -64(...), light-by-light valence piece = 64 nf (30 zeta3/54 - "
    "330/1296), all enumerated for nf 3-6; CC even/odd classes tied to NC ones where the physics identifies them. "
    "All cases are non-trivial (they evaluate real kernels); distinct = distinct (clause, kernel, nf, z/N)."
)
ASSUMPTIONS = [
    "orders 2 and 3 are Vogt et al. parametrisations: sum rules hold within |M1-target| <= eps * sum|piece moments| with eps five times the "
    "deviation measured on the enumerated rules (nf 3-6): Adler 3e-6 (order 2, measured 6.1e-7) and 2e-5 (order 3, 3.8e-6), GLS/Bjorken 1e-4 (order 2, 2.2e-5) "
    "and 2e-5 (order 3, 3.4e-6), light-by-light piece 1.5e-3 (2.3e-4); order 1 is exact (1e-9)",
    "sub-per-mille edits of fitted NNLO/N3LO constants in regular parts are not detectable by these exact constraints",
]
BUDGET = {"quick": {"examples": 4000, "wall": 300}, "thorough": {"examples": 1000000, "wall": 2400}}
MANDATORY = {
    t: ["clause:closed", "clause:moment", "clause:sumrule", "sumrule:adler", "sumrule:gls-bjorken", "sumrule:lbl", "kind:F2", "kind:FL", "kind:F3", "kind:g1",
        "channel:q", "channel:g", "order:2", "order:3"]
    for t in ("quick", "thorough")
}
SHRINK = {"quick": True, "thorough": True}
CF, TR, CA = 4.0 / 3.0, 0.5, 3.0
Z2, Z3, Z5 = math.pi**2 / 6, float(zeta(3)), float(zeta(5))


class FakeESF:
    x = 0.1
    Q2 = 10.0


def closed(kind, ch, z, nf):
    l1, l0 = math.log(1 - z), math.log(z)
    c2q = CF * (4 * l1 / (1 - z) - 3 / (1 - z) - 2 * (1 + z) * l1 - 2 * (1 + z * z) / (1 - z) * l0 + 6 + 4 * z)
    if ch == "q":
        if kind in ("F2", "g4"):
            return c2q
        if kind in ("F3", "g1"):
            return c2q - 2 * CF * (1 + z)
        return 4 * CF * z  # FL, gL
    if kind == "FL":
        return nf * 16 * TR * z * (1 - z)
    if kind == "F2":
        return nf * 4 * TR * ((z * z + (1 - z) ** 2) * (l1 - l0) - 1 + 8 * z * (1 - z))
    return nf * 4 * TR * ((2 * z - 1) * (l1 - l0 - 1) + 2 * (1 - z))  # g1


def s1(n):
    return float(digamma(n + 1) + np.euler_gamma)


def s2(n):
    return float(Z2 - polygamma(1, n + 1))


def analytic_moment(kind, n):
    """N-th moment of the NLO quark coefficient (Bardeen et al. / Floratos et al.), a_s = alpha_s/4pi."""
    # term-by-term Mellin transform of 4 D1 - 3 D0 - 2(1+z)ln(1-z) - 2(1+z^2)/(1-z) ln z + 6 + 4z - (9+4 zeta2) delta
    c2 = CF * (
        2 * s1(n - 1) ** 2
        + 3 * s1(n - 1)
        + 2 * s1(n) / n
        + 2 * s1(n + 1) / (n + 1)
        - 2 * s2(n + 1)
        + 6 / n
        + 4 / (n + 1)
        - 9
    )
    if kind in ("F2", "g4"):
        return c2
    if kind in ("F3", "g1"):
        return c2 - 2 * CF * (1 / n + 1 / (n + 1))
    return 4 * CF / (n + 1)


def classes():
    from yadism.coefficient_functions.light import f2_cc, f2_nc, f3_cc, f3_nc, fl_cc, fl_nc, g1_nc, g4_nc, gl_nc

    return {
        ("F2", "q"): [f2_nc.NonSinglet, f2_cc.NonSingletEven, f2_cc.NonSingletOdd],
        ("F2", "g"): [f2_nc.Gluon, f2_cc.Gluon],
        ("FL", "q"): [fl_nc.NonSinglet, fl_cc.NonSingletEven, fl_cc.NonSingletOdd],
        ("FL", "g"): [fl_nc.Gluon, fl_cc.Gluon],
        ("F3", "q"): [f3_nc.NonSinglet, f3_cc.NonSingletEven, f3_cc.NonSingletOdd],
        ("g1", "q"): [g1_nc.NonSinglet],
        ("g1", "g"): [g1_nc.Gluon],
        ("g4", "q"): [g4_nc.NonSinglet],
        ("gL", "q"): [gl_nc.NonSinglet],
    }


KEYS = [("F2", "q"), ("F2", "g"), ("FL", "q"), ("FL", "g"), ("F3", "q"), ("g1", "q"), ("g1", "g"), ("g4", "q"), ("gL", "q")]


def zvalues():
    return st.one_of(
        st.floats(1e-6, 1 - 1e-6),
        st.floats(-8, -0.01).map(lambda e: 10.0**e),
        st.floats(-8, -0.01).map(lambda e: 1.0 - 10.0**e),
    )


@st.composite
def cases(draw, tier="quick"):
    clause = draw(st.sampled_from(["closed", "closed", "moment"]))
    k = draw(st.integers(0, len(KEYS) - 1))
    nf = draw(st.integers(3, 6))
    c = {"clause": clause, "key": list(KEYS[k]), "nf": nf, "cls": draw(st.integers(0, 2))}
    if clause == "closed":
        c["z"] = draw(zvalues())
    else:
        c["N"] = draw(st.one_of(st.integers(1, 12).map(float), st.floats(1.1, 25.0).map(lambda v: round(v, 3))))
    return c


def enumerated(tier):
    out = []
    for nf in (3, 4, 5, 6):
        for o in (1, 2, 3):
            out.append({"clause": "sumrule", "rule": "adler", "order": o, "nf": nf})
            out.append({"clause": "sumrule", "rule": "gls", "order": o, "nf": nf})
            out.append({"clause": "sumrule", "rule": "gls-cc", "order": o, "nf": nf})
            if o < 3:
                out.append({"clause": "sumrule", "rule": "bjorken-g1", "order": o, "nf": nf})
        out.append({"clause": "sumrule", "rule": "lbl", "order": 3, "nf": nf})
        for k in KEYS:
            for n in (1.0, 2.0, 3.0, 6.5, 12.0):
                out.append({"clause": "moment", "key": list(k), "nf": nf, "cls": 0, "N": n})
    return out


def moment(rsl, n, absolute=False):
    """numerical Mellin moment of an RSL; with absolute=True the sum of absolute piece moments (scale)"""
    tot, sc = 0.0, 0.0
    kw = dict(epsabs=1e-12, epsrel=1e-12, limit=400)
    cuts = [0.0, 1e-6, 1e-3, 0.5, 0.9, 0.999, 0.999999, 1.0]
    if rsl.reg is not None:
        a = rsl.args["reg"]
        for lo, hi in zip(cuts[:-1], cuts[1:]):
            v = quad(lambda z: z ** (n - 1) * rsl.reg(z, a), lo, hi, **kw)[0]
            tot += v
            sc += abs(v)
    if rsl.sing is not None:
        a = rsl.args["sing"]
        for lo, hi in zip(cuts[:-1], cuts[1:]):
            v = quad(lambda z: (z ** (n - 1) - 1.0) * rsl.sing(z, a), lo, hi, **kw)[0]
            tot += v
            sc += abs(v)
    if rsl.loc is not None:
        v = float(rsl.loc(0.0, rsl.args["loc"]))
        tot += v
        sc += abs(v)
    return (tot, sc)


def bjorken(order, nf):
    return {
        1: -4.0,
        2: -16.0 * (55.0 / 12.0 - nf / 3.0),
        3: -64.0 * (13841.0 / 216.0 + 44.0 * Z3 / 9.0 - 55.0 * Z5 / 2.0 - (10339.0 / 1296.0 + 61.0 * Z3 / 54.0 - 5.0 * Z5 / 3.0) * nf + 115.0 * nf * nf / 648.0),
    }[order]


def check_case(case):
    from yadism.coefficient_functions.light import f2_cc, f3_cc, f3_nc, g1_nc

    v = Verdict()
    v.nontrivial = True
    cl = case["clause"]
    v.label(f"clause:{cl}")
    nf = case["nf"]
    with warnings.catch_warnings(), np.errstate(all="ignore"):
        warnings.simplefilter("ignore")
        if cl in ("closed", "moment"):
            kind, ch = case["key"]
            lst = classes()[(kind, ch)]
            cls = lst[case["cls"] % len(lst)]
            name = f"{cls.__module__.rsplit('.', 1)[-1]}.{cls.__name__}"
            rsl = cls(FakeESF, nf)[1]()
            v.label(f"kind:{kind}", f"channel:{ch}")
            if cl == "closed":
                z = case["z"]
                got = (rsl.reg(z, rsl.args["reg"]) if rsl.reg is not None else 0.0) + (rsl.sing(z, rsl.args["sing"]) if rsl.sing is not None else 0.0)
                exp = closed(kind, ch, z, nf)
                # the individual terms can be much larger than their sum near the end points
                sc = abs(exp) + CF * (abs(4 * math.log(1 - z) / (1 - z)) + 3 / (1 - z) + abs(2 * (1 + z * z) / (1 - z) * math.log(z))) * (1 if ch == "q" and kind not in ("FL", "gL") else 0)
                sc += nf * 4 * abs(math.log(z)) + nf * 4 * abs(math.log(1 - z)) if ch == "g" else 0
                tol = 1e-12 * sc + 1e-14
                v.metric("closed", abs(got - exp) / tol)
                if not abs(got - exp) <= tol:
                    v.fail(f"C04:closed:{name}", f"{name} NLO nf={nf}: reg+sing at z={z!r} is {got!r}, closed form {exp!r}")
                if ch == "q" and kind not in ("FL", "gL"):
                    d = float(rsl.loc(0.0, rsl.args["loc"]))
                    if abs(d + CF * (9 + 4 * Z2)) > 1e-12:
                        v.fail(f"C04:delta:{name}", f"{name} NLO delta coefficient {d!r} != -(9+4 zeta2) CF")
                elif rsl.loc is not None and abs(float(rsl.loc(0.0, rsl.args["loc"]))) > 0:
                    v.fail(f"C04:delta:{name}", f"{name} NLO has a delta term although the closed form has none")
            else:
                n = case["N"]
                got, sc = moment(rsl, n)
                if ch == "q":
                    exp = analytic_moment(kind, n)
                else:
                    exp = quad(lambda z: z ** (n - 1) * closed(kind, "g", z, nf), 0, 1, epsabs=1e-12, epsrel=1e-12, limit=400)[0]
                tol = 1e-8 * (sc + abs(exp)) + 1e-10
                v.metric("moment", abs(got - exp) / tol)
                if not abs(got - exp) <= tol:
                    v.fail(f"C04:moment:{name}", f"{name} NLO nf={nf}: moment N={n} is {got!r}, analytic {exp!r}")
        else:
            o = case["order"]
            rule = case["rule"]
            v.label(f"order:{o}")
            if rule == "adler":
                v.label("sumrule:adler", "kind:F2")
                got, sc = moment(f2_cc.NonSingletOdd(FakeESF, nf)[o](), 1.0)
                exp, what = 0.0, "Adler: first moment of the F2 nu-nubar non-singlet coefficient"
            elif rule == "gls":
                v.label("sumrule:gls-bjorken", "kind:F3")
                got, sc = moment(f3_nc.NonSinglet(FakeESF, nf)[o](), 1.0)
                exp, what = bjorken(o, nf), "GLS/Bjorken: first moment of the F3 non-singlet coefficient"
            elif rule == "gls-cc":
                v.label("sumrule:gls-bjorken", "kind:F3")
                got, sc = moment(f3_cc.NonSingletOdd(FakeESF, nf)[o](), 1.0)
                exp, what = bjorken(o, nf), "GLS/Bjorken: first moment of the CC F3 nu+nubar non-singlet coefficient"
            elif rule == "bjorken-g1":
                v.label("sumrule:gls-bjorken", "kind:g1")
                got, sc = moment(g1_nc.NonSinglet(FakeESF, nf)[o](), 1.0)
                exp, what = bjorken(o, nf), "Bjorken: first moment of the g1 non-singlet coefficient"
            else:
                v.label("sumrule:lbl", "kind:F3")
                got, sc = moment(f3_nc.Valence(FakeESF, nf)[3](), 1.0)
                exp, what = 64.0 * nf * (30.0 * Z3 / 54.0 - 330.0 / 1296.0), "GLS minus Bjorken: first moment of the light-by-light valence piece"
            # envelopes per order from the measured accuracy of the parametrisations' first moments (<=2.2e-5 of sum|pieces| at
            # order 2, <=3.8e-6 at order 3, 2.3e-4 for the light-by-light piece): 1e-4, 3e-5, 1.5e-3. The first version used
            # 1.5e-3 throughout and missed a swap of the even/odd CC F3 classes at NNLO (2e-4; seeded change C04).
            # ... and per sum rule since a fourth seeded change (NNLO local piece of the wrong CC class, 1.1e-4 of sum|pieces|) passed the
            # common order-2 envelope by 10 % only: the rules are enumerated for nf 3-6, their deviations are known exactly
            # (Adler 6.1e-7 / 3.8e-6 at orders 2 / 3, GLS and Bjorken 2.2e-5 / 3.4e-6), the envelopes are five times those
            rel = 1e-9 if o == 1 else (1.5e-3 if rule == "lbl" else {("adler", 2): 3e-6, ("adler", 3): 2e-5}.get((rule, o), 1e-4 if o == 2 else 2e-5))
            tol = rel * sc + 1e-12
            v.metric(f"sumrule:o{o}", abs(got - exp) / tol)
            if not abs(got - exp) <= tol:
                v.fail(f"C04:sumrule:{rule}:{o}", f"{what} at order {o}, nf={nf}: {got!r} != {exp!r} (envelope {tol:.3e})")
    return v


def warmup():
    from .. import warm

    warm.import_all()
    # oracle self-test: analytic moments vs numerical moments of the typed closed form
    for kind in ("F2", "F3", "FL"):
        for n in (2.0, 3.5, 7.0):
            if kind == "FL":
                num = quad(lambda z: z ** (n - 1) * closed(kind, "q", z, 4), 0, 1, epsabs=1e-13, epsrel=1e-13)[0]
            else:
                f = lambda z: closed(kind, "q", z, 4)  # noqa: E731
                # plus prescription: subtract the z->1 singular terms analytically
                sing = lambda z: CF * (4 * math.log(1 - z) / (1 - z) - 3 / (1 - z))  # noqa: E731
                num = quad(lambda z: z ** (n - 1) * (f(z) - sing(z)) + (z ** (n - 1) - 1) * sing(z), 0, 1, epsabs=1e-13, epsrel=1e-13, limit=400)[0] - CF * (9 + 4 * Z2)
            assert abs(num - analytic_moment(kind, n)) < 1e-7 * (1 + abs(num)), ("oracle self-test", kind, n, num, analytic_moment(kind, n))
