"""C14 - results do not depend on request history or cache state (model-based: isolated single-point runs)."""

import copy
import json
import math
import warnings

import numpy as np
from hypothesis import strategies as st

from .. import cards, configs, run
from ..engine import Verdict, guarded

ID = "C14"
RULE = (
    "Model = the result of an isolated fresh run that requests one observable at one kinematic point. Hypothesis draws a "
    "theory (scheme, PTO 0-2, TMC in {0,1,2,3}, scale variations), a target (proton, neutron, iron, lead, isoscalar, generated Z/A), a pool of 2-5 kinematic points built to collide with "
    "the internal caches (repeated Q2 values, the float next to another point's x or Q2, x on grid nodes, x equal to the Nachtmann xi of another point, x equal to a "
    "Q2 value, duplicates, both key orders of the kinematics dict) and a history: an ordered list of observables sharing "
    "caches (F2/FL/F3 of one or two heavynesses and the cross sections built from them), each with an ordered list of "
    "points, followed by 1-3 get_result calls on the same Runner (in half of the histories the caller overwrites, in place, every array of the output it was handed before asking again). Every returned ESFResult/EXSResult (order keys and their "
    "order, values, errors, x, Q2, y) must be bitwise the model entry. Non-trivial = at least two observables that share a "
    "cache and (a repeated get_result or a point list with repeated Q2/duplicates)."
)
ASSUMPTIONS = [
    "bitwise comparison of runs made by the same process with the same compiled code",
    "small grids (<=6 nodes) and PTO<=2 keep a TMC history affordable; the cache logic does not depend on grid size",
]
BUDGET = {"quick": {"examples": 800, "wall": 420, "min_evaluations": 200}, "thorough": {"examples": 10000, "wall": 2400, "min_evaluations": 1500}}
MANDATORY = {
    t: ["nontrivial", "tmc:on", "tmc:off", "target:other", "process:CC", "xs", "duplicate-point", "repeated-q2", "rerun", "x-is-xi", "x-on-node", "two-heavyness", "key-order:Q2-first", "caller-overwrites-returned-results", "ulp-neighbour-of-another-point", "same-numbers-in-exchanged-roles"]
    for t in ("quick", "thorough")
}
SHRINK = {"quick": False, "thorough": True}
abbreviate = configs.abbreviate


@st.composite
def cases(draw, tier="quick"):
    process = draw(st.sampled_from(["NC", "CC", "EM"]))
    scheme = draw(st.sampled_from(["ZM-VFNS", "ZM-VFNS", "FFNS", "FONLL-FFNS", "FFN0"]))
    tmc = draw(st.sampled_from([0, 1, 1, 2, 3, 3]))
    pto = draw(st.integers(0, 1 if (tmc and scheme != "ZM-VFNS") else 2))
    grid = draw(cards.grids(nmin=4, nmax=6, umin=2.0, umax=4.0))
    th = cards.theory(PTO=pto, FNS=scheme, NfFF=draw(st.integers(3, 4)), TMC=tmc)
    th["MP"] = draw(st.sampled_from([0.938, 0.5, 1.5]))
    th["RenScaleVar"] = draw(st.booleans())
    th["FactScaleVar"] = draw(st.booleans()) if pto < 2 or scheme == "ZM-VFNS" else False
    proj = draw(st.sampled_from(["electron", "positron"] if process == "EM" else cards.PROJECTILES))
    ob = cards.observables(prDIS=process, ProjectileDIS=proj)
    cards.apply_grid(ob, grid)
    # targets other than the proton make the in-place isospin rotation of kernel weights observable: shared or memoised
    # weights between the evaluations of one history show up only there (seeded change C14-lru-cache)
    tgt = draw(st.sampled_from(["proton", "neutron", "iron", "lead", "isoscalar", "ZA"]))
    if tgt == "ZA":
        a = round(draw(st.floats(1.0, 240.0)), 3)
        tgt = {"Z": round(draw(st.floats(0.0, 1.0)) * a, 3), "A": a}
        if draw(st.booleans()):
            tgt = {"A": tgt["A"], "Z": tgt["Z"]}  # key order as after a YAML round trip
    ob["TargetDIS"] = tgt
    if process != "CC" and draw(st.integers(0, 3)) == 0:
        ob["NCPositivityCharge"] = draw(st.sampled_from(["up", "down", "charm"]))
    g = grid["xgrid"]
    # pool of points
    q2s = [draw(cards.q2_values(2.0, 300.0)) for _ in range(draw(st.integers(1, 3)))]
    if draw(st.booleans()):
        q2s.append(0.5)  # a Q2 value that is also a legal x
    pool = []
    npool = draw(st.integers(2, 5))
    for i in range(npool):
        q2 = draw(st.sampled_from(q2s))
        kind = draw(st.sampled_from(["interior", "node", "xi", "q2", "ulp", "swap"]))
        if kind == "ulp" and pool:
            # the float next to an earlier point (in x, in Q2 or in both): a different point, however close
            p0 = pool[draw(st.integers(0, len(pool) - 1))]
            sx, sq = draw(st.sampled_from([(1, 0), (0, 1), (0, -1), (1, 1), (-1, 0)]))
            x = math.nextafter(p0["x"], math.inf if sx > 0 else 0.0) if sx else p0["x"]
            q2 = math.nextafter(p0["Q2"], math.inf if sq > 0 else 0.0) if sq else p0["Q2"]
        elif kind == "node":
            x = g[draw(st.integers(1, len(g) - 2))]
        elif kind == "xi" and pool:
            x0 = pool[draw(st.integers(0, len(pool) - 1))]["x"]
            mu = th["MP"] ** 2 / q2
            x = 2 * x0 / (1 + math.sqrt(1 + 4 * x0 * x0 * mu))
        elif kind == "q2" and 0.5 in q2s:
            x = 0.5
        elif kind == "swap" and pool:
            # the same numbers in exchanged roles: (x, y) -> (y, x) at the same Q2, or (x, Q2) -> (Q2, x) where both are legal
            p0 = pool[draw(st.integers(0, len(pool) - 1))]
            if p0["Q2"] <= 1.0 and p0["x"] >= 0.3 and draw(st.booleans()):
                x, q2, yswap = p0["Q2"], p0["x"], None
            else:
                x, q2, yswap = p0["y"], p0["Q2"], p0["x"]
        else:
            kind = "interior"
            x = draw(cards.x_in_grid(grid, classes=["interior"]))[0]
        # TMC needs xi(x) >= xmin: stay well inside the grid
        x = max(x, g[0] * 3)
        y = draw(st.sampled_from([0.3, 0.7, 1.0]))
        if kind == "swap" and yswap is not None and x == p0["y"]:
            y = yswap
        pool.append({"x": x, "Q2": q2, "y": y, "kind": kind})
    hv = draw(st.lists(st.sampled_from(["total", "light", "charm"]), min_size=1, max_size=2, unique=True))
    sfk = ["F2", "FL", "F3"]
    # every cross-section kind of the process (points share their y values: 0.3, 0.7, 1.0)
    xsk = ["XSHERANC", "XSHERANCAVG", "F1"] if process != "CC" else ["XSHERACC", "XSCHORUSCC", "XSNUTEVCC", "XSNUTEVNU", "XSFPFCC", "FW", "F1"]
    names = [f"{k}_{h}" for h in hv for k in sfk + xsk]
    chosen = draw(st.lists(st.sampled_from(names), min_size=1, max_size=4, unique=True))
    plan = []
    for n in chosen:
        idx = draw(st.lists(st.integers(0, npool - 1), min_size=1, max_size=4))
        plan.append([n, idx])
    configs.split_orders(draw, th)
    return {
        "theory": th,
        "obs": ob,
        "pool": pool,
        "plan": plan,
        "calls": draw(st.integers(1, 3)),
        "q2first": draw(st.booleans()),
        "scribble": draw(st.booleans()),
        "meta": {"scheme": scheme, "process": process, "pto": pto, "tmc": tmc},
    }


def kin_of(name, p, q2first=False):
    k = {"Q2": p["Q2"], "x": p["x"]} if q2first else {"x": p["x"], "Q2": p["Q2"]}
    if name.split("_")[0] in configs.XS_KINDS:
        k["y"] = p["y"]
    return k


_MODEL = {}


def model(th, ob, name, p):
    key = json.dumps([th, ob, name, p["x"], p["Q2"], p["y"]], sort_keys=True, default=str)
    if key not in _MODEL:
        if len(_MODEL) > 400:
            _MODEL.clear()
        o = copy.deepcopy(ob)
        o["observables"] = {name: [kin_of(name, p)]}
        _MODEL[key] = run.run(th, o)[name][0]
    return _MODEL[key]


def same(a, b):
    ok, why = run.bitwise_equal_res(a, b)
    if not ok:
        return why
    if float(a.x) != float(b.x) or float(a.Q2) != float(b.Q2):
        return f"kinematics ({a.x},{a.Q2}) vs ({b.x},{b.Q2})"
    if getattr(a, "y", None) != getattr(b, "y", None):
        return "y differs"
    if type(a) is not type(b):
        return "result type differs"
    return None


def check_case(case):
    import yadism

    v = Verdict()
    run._silence()
    th, ob, pool, plan = case["theory"], case["obs"], case["pool"], case["plan"]
    v.label("tmc:on" if th["TMC"] else "tmc:off", f"tmc:{th['TMC']}", f"scheme:{case['meta']['scheme']}", f"pto:{th['PTO']}")
    v.label("target:proton" if ob["TargetDIS"] == "proton" else "target:other", f"process:{case['meta']['process']}")
    o = copy.deepcopy(ob)
    o["observables"] = {n: [kin_of(n, pool[i], case["q2first"]) for i in idx] for n, idx in plan}
    if case["q2first"]:
        v.label("key-order:Q2-first")
    names = [n for n, _ in plan]
    if any(n.split("_")[0] in configs.XS_KINDS for n in names):
        v.label("xs")
    if len({n.split("_")[1] for n in names}) > 1:
        v.label("two-heavyness")
    dup = any(len(set(idx)) < len(idx) for _, idx in plan)
    repq = any(len({pool[i]["Q2"] for i in idx}) < len(set(idx)) for _, idx in plan)
    used = {i for _, idx in plan for i in idx}
    if dup:
        v.label("duplicate-point")
    if repq:
        v.label("repeated-q2")
    for i in used:
        if pool[i]["kind"] == "xi":
            v.label("x-is-xi")
        if pool[i]["kind"] == "node":
            v.label("x-on-node")
        if pool[i]["kind"] == "ulp":
            v.label("ulp-neighbour-of-another-point")
        if pool[i]["kind"] == "swap":
            v.label("same-numbers-in-exchanged-roles")
    if case["calls"] > 1:
        v.label("rerun")
    with warnings.catch_warnings():
        warnings.simplefilter("ignore")
        r = guarded(yadism.Runner, copy.deepcopy(th), o)
        for call in range(case["calls"]):
            out = guarded(r.get_result)
            for n, idx in plan:
                res = out[n]
                if len(res) != len(idx):
                    v.fail("C14:length", f"{n}: {len(res)} results for {len(idx)} points")
                    continue
                for pos, (i, got) in enumerate(zip(idx, res)):
                    exp = model(th, ob, n, pool[i])
                    why = same(exp, got)
                    if why:
                        v.fail(
                            f"C14:history-dependence:{'tmc' if th['TMC'] else 'plain'}:{'xs' if n.split('_')[0] in configs.XS_KINDS else 'sf'}",
                            f"{n} point #{pos} (x={pool[i]['x']}, Q2={pool[i]['Q2']}) in call {call+1} of history {plan} differs from its isolated run: {why}",
                        )
            if case.get("scribble") and case["calls"] > 1:
                # the caller does what it likes with the objects it was handed: later requests must not see it
                v.label("caller-overwrites-returned-results")
                for n, _ in plan:
                    for res in out[n]:
                        for k in list(res.orders):
                            val, err = res.orders[k]
                            try:
                                np.multiply(val, -3.0, out=val)
                                err[...] = 7.0
                            except (TypeError, ValueError):
                                res.orders[k] = (None, None)
    shares = len(names) >= 2
    v.nontrivial = shares and (case["calls"] > 1 or dup or repq)
    if v.nontrivial:
        v.label("nontrivial")
    return v


def warmup():
    from .. import warm

    warm.import_all()
    warm.tiny_run()
