"""C20 - the runner leaves its inputs untouched and echoes them (generated call histories on shared card objects)."""

import copy
import math
import warnings

import numpy as np
from hypothesis import strategies as st

from .. import cards, configs, run, snapshot
from ..engine import Verdict, guarded

ID = "C20"
RULE = (
    "Hypothesis draws a theory/observable card pair (all schemes incl. FONLL threshold rewriting, every target "
    "spelling and {Z,A} dicts, legacy keys alphaqed/QED/PTODIS/FONLLParts/RenScaleVar/FactScaleVar/MZ/SIN2TW present "
    "or absent, unsorted grids, grids and kinematics given as numpy objects, one kinematics list object shared by "
    "several observables; one case in sixteen is a request at x = 2e-9 in FFNS at NNLO, where the raw result contains non-finite numbers and the "
    "runner's NaN-replacement path builds the output) and a history of up to 8 operations on the *same* dict objects: construct a Runner, "
    "get_result on any existing runner (repeatedly), compatibility.update, run_yadism. After every step a type-strict "
    "deep snapshot (values, types, dtypes, aliasing structure) of both cards must equal the one taken before the "
    "history; update must be idempotent; every output must echo the cards, the sorted grid, degree, log flag, the 14 "
    "parton ids and the documented projectile PID. Non-trivial = history with a Runner construction followed by at "
    "least one result, on a card that triggers rewriting (non-ZM scheme, named target, or a legacy key)."
)
ASSUMPTIONS = [
    "'records exactly the cards it was given' is checked as value-level deep equality of Output.theory / "
    "Output.observables with the snapshot taken before the history (container types and numpy-ness ignored)",
    "kinematic points are valid and few: the property is about the cards, not the numbers",
]
BUDGET = {"quick": {"examples": 2000, "wall": 300}, "thorough": {"examples": 60000, "wall": 2400}}
MANDATORY = {
    t: ["nontrivial", "op:runner", "op:result", "op:update", "op:run_yadism", "alias:kinematics", "numpy:grid", "numpy:kin",
        "legacy:absent", "fns:FONLL", "target:name", "grid:unsorted", "rerun", "nan-replacement-path", "point-on-matching-scale"]
    for t in ("quick", "thorough")
}
SHRINK = {"quick": True, "thorough": True}
PIDS14 = [22, -6, -5, -4, -3, -2, -1, 21, 1, 2, 3, 4, 5, 6]
PROJ = {"electron": 11, "positron": -11, "neutrino": 12, "antineutrino": -12}
LEGACY = ["alphaqed", "QED", "PTODIS", "FONLLParts", "RenScaleVar", "FactScaleVar", "MZ", "SIN2TW"]
TARGETS = ["proton", "neutron", "isoscalar", "iron", "lead", "neon", "marble"]


@st.composite
def cases(draw, tier="quick"):
    cfg = draw(
        configs.config(
            kinds=("F2", "FL", "F3"),
            max_pto=1,
            tmcs=(0, 0, 1),
            targets=tuple(TARGETS) + ("ZA",),
            grid_kw={"nmax": 6},
            x_classes=["interior", "node"],
            n_points=(0, 2),
            fonllparts=("full", "massless", "massive"),
        )
    )
    th, ob, meta = cfg["theory"], cfg["obs"], cfg["meta"]
    if draw(st.integers(0, 15)) == 0:
        # the runner's NaN-replacement path: at x ~ 1e-9 the NNLO massive corrections on the light-quark line come back non-finite
        # from the massive library and Runner.replace_nans_with_0 rebuilds the output - the cards must be echoed all the same
        kind = draw(st.sampled_from(["F2", "FL"]))
        name = f"{kind}_{draw(st.sampled_from(['light', 'total']))}"
        th.update({"FNS": "FFNS", "NfFF": 3, "PTO": 2, "TMC": 0, "mc": 1.51, "mb": 4.92, "mt": 172.5})
        if ob["prDIS"] == "CC":
            ob["prDIS"], ob["ProjectileDIS"] = "EM", "electron"
        ob["interpolation_xgrid"] = [1e-9, 6.30957344480193e-08, 3.98107170553497e-06, 0.000251188643150958, 0.0158489319246111, 1.0]
        ob["interpolation_polynomial_degree"], ob["interpolation_is_log"] = 2, True
        ob["observables"] = {name: [{"x": 2e-9, "Q2": 10.0}]}
        meta.update({"name": name, "kind": kind, "heavyness": name.split("_")[1], "scheme": "FFNS", "pto": 2, "tmc": 0, "process": ob["prDIS"], "nan_path": True})
    pts = ob["observables"][meta["name"]]
    if pts and not meta.get("nan_path") and draw(st.integers(0, 3)) == 0:
        # a point on a matching scale as users type it (the decimal literal of (m k)^2, which may differ from the product in the last
        # bits) or on the floats next to it: nothing may "snap" the caller's number onto the scale
        m, k = draw(st.sampled_from([("mc", "kcThr"), ("mb", "kbThr"), ("mt", "ktThr")]))
        thr = float(np.square(th[m] * th[k]))
        q2 = draw(st.sampled_from([float(f"{thr:.10g}"), thr, math.nextafter(thr, 0.0), math.nextafter(thr, math.inf)]))
        if q2 > 0.5:
            pts[draw(st.integers(0, len(pts) - 1))]["Q2"] = q2
            meta["on_matching_scale"] = True
    # legacy / optional keys: present with a value, or absent
    th["PTODIS"] = draw(st.sampled_from([None, th["PTO"], th["PTO"], th["PTO"] if meta.get("nan_path") else (th["PTO"] + 1) % 3]))
    drop = draw(st.lists(st.sampled_from(LEGACY), unique=True, max_size=4))
    if not th["FNS"].startswith("FONLL") and "FONLLParts" not in drop and draw(st.booleans()):
        th["FONLLParts"] = draw(st.sampled_from([None, "full"]))
    for k in drop:
        th.pop(k, None)
    # a second observable sharing (or not) the kinematics list object
    second = draw(st.sampled_from([None, "F2_light", "FL_total", "XSHERANCAVG_total"]))
    cfg["second"] = second if second != meta["name"] else None
    cfg["share_kin"] = draw(st.booleans())
    cfg["numpy_grid"] = draw(st.booleans())
    cfg["numpy_kin"] = draw(st.booleans())
    cfg["shuffle_grid"] = draw(st.booleans())
    ops = draw(st.lists(st.sampled_from(["runner", "result", "result", "update", "run_yadism"]), min_size=1, max_size=8))
    cfg["ops"] = [[o, draw(st.integers(0, 3))] for o in ops]
    return cfg


FUZZ = {"thorough": {"runs": 3000, "children": 4, "wall": 900}}


def fuzz_cases():
    return cases("thorough")


def build(case):
    th = copy.deepcopy(case["theory"])
    ob = copy.deepcopy(case["obs"])
    name = case["meta"]["name"]
    kin = ob["observables"][name]
    if case["numpy_kin"]:
        kin = [{k: np.float64(v) for k, v in p.items()} for p in kin]
        ob["observables"][name] = kin
    if case["second"]:
        if case["second"].startswith("XS"):
            ob["observables"][case["second"]] = [dict(p, y=0.5) for p in kin]
        elif case["share_kin"]:
            ob["observables"][case["second"]] = kin  # the same list object
        else:
            ob["observables"][case["second"]] = copy.deepcopy(kin)
    g = list(ob["interpolation_xgrid"])
    if case["shuffle_grid"] and len(g) > 2:
        g = g[1::2] + g[0::2]
    ob["interpolation_xgrid"] = np.array(g) if case["numpy_grid"] else g
    return th, ob


def check_output(v, out, plain_th, plain_ob, case, step, allkins):
    ob = case["obs"]
    if snapshot.plain(out.theory) != plain_th:
        v.fail("C20:echo:theory", f"step {step}: Output.theory differs from the theory card given")
    if snapshot.plain(out.observables) != plain_ob:
        v.fail("C20:echo:observables", f"step {step}: Output.observables differs from the observable card given")
    grid = np.asarray(out["xgrid"]["grid"], dtype=float)
    if not np.array_equal(grid, np.unique(np.asarray(ob["interpolation_xgrid"], dtype=float))):
        v.fail("C20:echo:grid", f"step {step}: output grid {grid.tolist()} is not the sorted input grid")
    if bool(out["xgrid"]["log"]) != ob["interpolation_is_log"] or bool(out["is_log"]) != ob["interpolation_is_log"]:
        v.fail("C20:echo:log", f"step {step}: log flag not echoed")
    if int(out["polynomial_degree"]) != ob["interpolation_polynomial_degree"]:
        v.fail("C20:echo:degree", f"step {step}: polynomial degree not echoed")
    if [int(p) for p in out["pids"]] != PIDS14:
        v.fail("C20:echo:pids", f"step {step}: pids {list(out['pids'])}")
    if int(out["projectilePID"]) != PROJ[ob["ProjectileDIS"]]:
        v.fail("C20:echo:projectile", f"step {step}: projectilePID {out['projectilePID']} for {ob['ProjectileDIS']}")
    for name, kins in allkins.items():
        res = out.get(name)
        if res is None or len(res) != len(kins):
            v.fail("C20:echo:results", f"step {step}: observable {name} has {None if res is None else len(res)} results for {len(kins)} points")
            continue
        for r, k in zip(res, kins):
            if float(r.x) != float(k["x"]) or float(r.Q2) != float(k["Q2"]):
                v.fail("C20:echo:kinematics", f"step {step}: {name} result kinematics ({r.x},{r.Q2}) != requested ({k['x']},{k['Q2']})")


def check_case(case):
    from yadism.input import compatibility

    import yadism

    v = Verdict()
    run._silence()
    th, ob = build(case)
    allkins = {n: [dict(p) for p in k] for n, k in ob["observables"].items()}
    s_th, s_ob = snapshot.snap(th), snapshot.snap(ob)
    plain_th, plain_ob = snapshot.plain(th), snapshot.plain(ob)
    fns = th["FNS"]
    v.label("fns:FONLL" if fns.startswith("FONLL") else f"fns:{fns}")
    v.label("target:name" if isinstance(ob["TargetDIS"], str) else "target:ZA")
    if case["meta"].get("nan_path"):
        v.label("nan-replacement-path")
    if case["meta"].get("on_matching_scale"):
        v.label("point-on-matching-scale")
    if any(k not in th for k in LEGACY) or th.get("PTODIS") is None:
        v.label("legacy:absent")
    if case["second"] and case["share_kin"] and not case["second"].startswith("XS"):
        v.label("alias:kinematics")
    if case["numpy_grid"]:
        v.label("numpy:grid")
    if case["numpy_kin"]:
        v.label("numpy:kin")
    if case["shuffle_grid"]:
        v.label("grid:unsorted")
    runners, nres = [], {}
    built_then_result = False

    def unchanged(step, what):
        d = snapshot.diff(s_th, snapshot.snap(th), "theory")
        if d:
            v.fail(f"C20:mutated:theory:{what}", f"step {step} ({what}) changed the caller's theory card: {d}")
        d = snapshot.diff(s_ob, snapshot.snap(ob), "observables")
        if d:
            v.fail(f"C20:mutated:observables:{what}", f"step {step} ({what}) changed the caller's observable card: {d}")

    with warnings.catch_warnings():
        warnings.simplefilter("ignore")
        for step, (op, arg) in enumerate(case["ops"]):
            if op == "runner":
                runners.append(guarded(yadism.Runner, th, ob))
                v.label("op:runner")
            elif op == "result":
                if not runners:
                    continue
                i = arg % len(runners)
                out = guarded(runners[i].get_result)
                nres[i] = nres.get(i, 0) + 1
                if nres[i] > 1:
                    v.label("rerun")
                built_then_result = True
                v.label("op:result")
                check_output(v, out, plain_th, plain_ob, case, step, allkins)
            elif op == "update":
                nt, no = guarded(compatibility.update, th, ob)
                v.label("op:update")
                if nt is th or no is ob:
                    v.fail("C20:update:alias", "compatibility.update returned the caller's own dict")
                s1 = (snapshot.snap(nt), snapshot.snap(no))
                nt2, no2 = guarded(compatibility.update, nt, no)
                if snapshot.plain(nt2) != snapshot.plain(nt) or snapshot.plain(no2) != snapshot.plain(no):
                    v.fail("C20:update:idempotence", "update(update(t,o)) != update(t,o)")
                if (snapshot.snap(nt), snapshot.snap(no)) != s1:
                    v.fail("C20:update:mutates-argument", "second update() modified its argument")
            else:
                out = guarded(yadism.run_yadism, th, ob)
                built_then_result = True
                v.label("op:run_yadism")
                check_output(v, out, plain_th, plain_ob, case, step, allkins)
            unchanged(step, op)
    rewriting = fns != "ZM-VFNS" or isinstance(case["obs"]["TargetDIS"], str) or "legacy:absent" in v.labels
    v.nontrivial = built_then_result and rewriting
    if v.nontrivial:
        v.label("nontrivial")
    return v


def abbreviate(case):
    c = configs.abbreviate({k: v for k, v in case.items() if not k.startswith("_")})
    return c


def warmup():
    from .. import warm

    warm.import_all()
    warm.tiny_run()
