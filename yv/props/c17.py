"""C17 - applying a PDF contracts the operator with the right scales and couplings (reference formula)."""

import copy
import math
import warnings

import numpy as np
from hypothesis import strategies as st
from scipy.integrate import solve_ivp

from .. import cards, configs, pdfs, run
from ..engine import Verdict, guarded
from . import c15

ID = "C17"
RULE = (
    "Hypothesis draws an output (real runner output with scale-variation keys, or a synthetic Output with arbitrary "
    "(as,aem,lnR,lnF) order keys), a smooth Q2-dependent PDF per flavour, a flavour subset whose absent members make "
    "xfxQ2 raise, xiR, xiF in [0.2,5], alpha_s and alpha callables with generated parameters, and for the theory clause a "
    "theory card (alphas, Qref, nfref, PTO 0-3, FFNS/FFN0/ZM-VFNS, masses). Oracles: (formula) explicit-loop evaluation of "
    "sum_k a_s(xiR Q)^k alpha^l ln(1/xiR^2)^i ln(1/xiF^2)^j sum_{p,n} O[p,n] f_p(x_n, xiF^2 Q2)/x_n; (linear) "
    "apply(a f + b g) = a apply(f) + b apply(g); (reuse) on the same Output: a PDF object changed in place since the previous call, PDF objects that live only for the "
    "duration of a call, and a repetition of the first call each give their own reference value; (absent) absent flavours contribute nothing and are never evaluated; "
    "(theory) apply_pdf_theory uses alpha_s from an independent integration of the beta-function ODE (beta0..beta3 typed "
    "in) at order PTO+1 from (Qref, nfref) to nf=NfFF or nf(mu) with typed-in decoupling at every matching scale (m k)^2 on the way (generated k in [0.5,2.5], nfref independent of NfFF); (default) apply_pdf(pdf) = apply_pdf_theory(pdf, out.theory). "
    "Non-trivial = at least one point with a non-zero prediction and (xiR,xiF) != (1,1)."
)
ASSUMPTIONS = [
    "alpha_s reference: between (Qref, nfref) and (muR, NfFF or nf(muR)) the flavour number changes at the matching scales "
    "(m k)^2, where the pole-mass decoupling series (coefficients typed in from the literature, PTO terms, L = ln k^2; "
    "downwards its perturbative inverse, which is the convention of the eko couplings the package documents) is applied",
    "alpha_s tolerance 5e-6 relative (eko's exact solver vs scipy solve_ivp at rtol 1e-11); contraction tolerance 1e-11 of the "
    "absolute-value sum",
    "ModEv=EXA only; the alpha_s clause is applied only where the reference coupling stays below 0.5 (perturbative domain)",
]
BUDGET = {"quick": {"examples": 1600, "wall": 300}, "thorough": {"examples": 80000, "wall": 2400}}
MANDATORY = {
    t: ["nontrivial", "source:real", "source:synthetic", "clause:formula", "clause:linear", "clause:reuse", "clause:absent", "clause:theory",
        "theory:FFNS", "theory:ZM-VFNS", "theory:crossing", "theory:matching-nontrivial", "theory:FFNS-nfref-differs", "mixed-key", "xs"]
    for t in ("quick", "thorough")
}
SHRINK = {"quick": False, "thorough": True}
ZETA3 = 1.2020569031595942


def beta(nf):
    return (
        11.0 - 2.0 * nf / 3.0,
        102.0 - 38.0 * nf / 3.0,
        2857.0 / 2.0 - 5033.0 * nf / 18.0 + 325.0 * nf**2 / 54.0,
        (149753.0 / 6.0 + 3564.0 * ZETA3)
        - (1078361.0 / 162.0 + 6508.0 * ZETA3 / 27.0) * nf
        + (50065.0 / 162.0 + 6472.0 * ZETA3 / 81.0) * nf**2
        + 1093.0 / 729.0 * nf**3,
    )


def matching_up(nl):
    """Pole-mass decoupling coefficients c[n][k] of a^(nl+1) = a (1 + sum_n a^n sum_k c[n][k] L^k), a = alpha_s^(nl)/4pi,
    L = ln(mu_thr^2/m^2) (Chetyrkin-Kniehl-Steinhauser; Vogt hep-ph/0408244 eq. 2.43), typed in."""
    return {
        1: {1: 2.0 / 3.0},
        2: {0: 14.0 / 3.0, 1: 38.0 / 3.0, 2: 4.0 / 9.0},
        3: {0: 340.729 - 16.7981 * nl, 1: 8941.0 / 27.0 - 409.0 / 27.0 * nl, 2: 511.0 / 9.0, 3: 8.0 / 27.0},
    }


def matching_down(nl):
    """Coefficients of the inverse series (a^(nl) in terms of a^(nl+1)), by series reversion of matching_up."""
    c = matching_up(nl)
    c11, c20, c21, c22 = c[1][1], c[2][0], c[2][1], c[2][2]
    c30, c31, c32, c33 = c[3][0], c[3][1], c[3][2], c[3][3]
    return {
        1: {1: -c11},
        2: {0: -c20, 1: -c21, 2: 2.0 * c11**2 - c22},
        3: {0: -c30, 1: 5.0 * c11 * c20 - c31, 2: 5.0 * c11 * c21 - c32, 3: -5.0 * c11**3 + 5.0 * c11 * c22 - c33},
    }


class NonPerturbative(Exception):
    pass


def as_ref(th, mu):
    """alpha_s(mu) from the theory card: da/dln(mu^2) = -sum_k beta_k a^(k+2) (a = alpha_s/4pi, PTO+1 terms) from
    (Qref, nfref) to (mu, nf_to), nf_to = NfFF or nf(mu); at every matching scale (m k)^2 on the way the number of
    flavours changes by one and the coupling is matched with PTO terms of the decoupling series at L = ln k^2."""
    order = th["PTO"] + 1
    thr = {nf: (th[m] * th[k]) ** 2 for nf, m, k in ((4, "mc", "kcThr"), (5, "mb", "kbThr"), (6, "mt", "ktThr"))}
    lk = {nf: math.log(th[k] ** 2) for nf, k in ((4, "kcThr"), (5, "kbThr"), (6, "ktThr"))}
    q2b = mu**2
    nf_to = th["NfFF"] if th["FNS"] != "ZM-VFNS" else 3 + sum(1 for t in thr.values() if t <= q2b)

    def run_to(a, nf, s, e):
        if s == e:
            return a
        bs = beta(nf)[:order]
        sol = solve_ivp(lambda t, y: -sum(bk * y[0] ** (k + 2) for k, bk in enumerate(bs)), [math.log(s), math.log(e)], [a], rtol=1e-11, atol=1e-15, method="DOP853")
        if not sol.success or not 0.0 < sol.y[0, -1] * 4 * math.pi < 0.5 or not np.all(np.isfinite(sol.y)):
            raise NonPerturbative()
        return float(sol.y[0, -1])

    def match(a, coeffs, L):
        f = 1.0
        for n in range(1, order):
            for k, cnk in coeffs[n].items():
                f += a**n * L**k * cnk
        return a * f

    a, nf, q2 = th["alphas"] / (4 * math.pi), th["nfref"], th["Qref"] ** 2
    while nf < nf_to:
        a = match(run_to(a, nf, q2, thr[nf + 1]), matching_up(nf), lk[nf + 1])
        q2, nf = thr[nf + 1], nf + 1
    while nf > nf_to:
        a = match(run_to(a, nf, q2, thr[nf]), matching_down(nf - 1), lk[nf])
        q2, nf = thr[nf], nf - 1
    a = run_to(a, nf, q2, q2b)
    if not 0.0 < a * 4 * math.pi < 0.5:
        raise NonPerturbative()
    return a * 4 * math.pi


def crossing_info(th, mu):
    """(number of matchings on the way, some matching non-trivial: L != 0 or PTO >= 2)"""
    thr = {nf: (th[m] * th[k]) ** 2 for nf, m, k in ((4, "mc", "kcThr"), (5, "mb", "kbThr"), (6, "mt", "ktThr"))}
    nf_to = th["NfFF"] if th["FNS"] != "ZM-VFNS" else 3 + sum(1 for t in thr.values() if t <= mu**2)
    lo, hi = sorted((th["nfref"], nf_to))
    ks = [th[k] for nf, k in ((4, "kcThr"), (5, "kbThr"), (6, "ktThr")) if lo < nf <= hi]
    return len(ks), bool(ks) and (th["PTO"] >= 2 or any(k != 1.0 for k in ks))


@st.composite
def cases(draw, tier="quick"):
    src = draw(st.sampled_from(["real", "synthetic"]))
    if src == "real":
        base = draw(
            configs.config(
                kinds=("F2", "FL", "F3", "g1", "XSHERANC", "XSHERACC", "F1"),
                max_pto=draw(st.sampled_from([1, 1, 1, 2])),
                sv="both",
                targets=("proton",),
                grid_kw={"nmax": 6},
                x_classes=["interior", "node"],
                n_points=(1, 2),
                q2range=(2.0, 1e4),
            )
        )
        base["source"] = "real"
        base["extra"] = None
        base["numpy_kin"] = False
    else:
        base = draw(c15.synthetic())
        # C15's synthetic outputs carry 1e+-300 entries for the bitwise round trip; contracted with a PDF they overflow to
        # inf-inf=nan on both sides of any formula (false alarm at seeds 5, 6): keep magnitudes where products stay finite
        for pts in base["results"].values():
            for pt in pts or []:
                for o in pt["orders"]:
                    o["values"] = [[(math.copysign(1e3, v) if abs(v) > 1e100 else v) for v in row] for row in o["values"]]
                    o["errors"] = [[(1e-3 if abs(v) > 1e100 else v) for v in row] for row in o["errors"]]
    base["pdf"] = pdfs.smooth_params(draw, st)
    base["pdf2"] = pdfs.smooth_params(draw, st)
    base["lin"] = [round(draw(st.floats(-2, 2)), 3), round(draw(st.floats(-2, 2)), 3)]
    base["absent"] = draw(st.lists(st.sampled_from(pdfs.ALL), unique=True, min_size=1, max_size=6))
    base["xiR"] = draw(st.sampled_from([1.0, 0.5, 2.0]) | st.floats(0.2, 5.0).map(lambda x: round(x, 4)))
    base["xiF"] = draw(st.sampled_from([1.0, 0.5, 2.0]) | st.floats(0.2, 5.0).map(lambda x: round(x, 4)))
    base["as_par"] = [round(draw(st.floats(0.05, 0.5)), 4), round(draw(st.floats(0.0, 0.3)), 4)]
    base["aem_par"] = [round(draw(st.floats(0.005, 0.05)), 5), round(draw(st.floats(0.0, 0.01)), 5)]
    # theory card for apply_pdf_theory
    fns = draw(st.sampled_from(["FFNS", "FFN0", "ZM-VFNS", "ZM-VFNS"]))
    pto = draw(st.integers(0, 3))
    t = cards.theory(PTO=pto, FNS=fns, alphas=round(draw(st.floats(0.1, 0.13)), 5))
    t.update(draw(cards.masses()))
    # matching scales (m k) in the natural order, ratios as users set them or generic
    kdraw = st.sampled_from([1.0, 1.0, 0.5, 2.0, 1.5]) | st.floats(0.5, 2.5).map(lambda k: round(k, 3))
    t["kcThr"] = draw(kdraw)
    t["kbThr"] = max(draw(kdraw), round(1.06 * t["mc"] * t["kcThr"] / t["mb"], 3))
    t["ktThr"] = max(draw(kdraw), round(1.06 * t["mb"] * t["kbThr"] / t["mt"], 3))
    t["XIR"], t["XIF"] = base["xiR"], base["xiF"]
    t["alphaqed"] = base["aem_par"][0]
    t["MaxNfAs"] = 6
    nfr = draw(st.integers(3, 6))
    scales = [0.0, t["mc"] * t["kcThr"], t["mb"] * t["kbThr"], t["mt"] * t["ktThr"], 1e5]
    if draw(st.integers(0, 3)) > 0:
        # reference point inside the patch of its nfref
        lo, hi = max(scales[nfr - 3], 1.5), max(scales[nfr - 2], 2.0)
        t["Qref"] = round(lo + (hi - lo) * draw(st.floats(0.1, 0.9)), 4)
    else:
        t["Qref"] = round(draw(st.floats(2.0, 300.0)), 3)
    t["nfref"] = nfr
    if fns != "ZM-VFNS":
        t["NfFF"] = draw(st.integers(3, 5))
        if draw(st.booleans()):
            t["nfref"] = t["NfFF"]
    # the order of the coefficient functions may be given separately (PTODIS): the running of the coupling follows PTO
    r = draw(st.integers(0, 3))
    if r == 1:
        t["PTODIS"] = None
    elif r >= 2:
        t["PTODIS"] = draw(st.sampled_from([o for o in range(4) if o != pto]))
    base["apply_theory"] = t
    return base


def reference(out, pdf, alpha_s, alpha_qed, xir, xif):
    """explicit loops; returns {obs: [(result, scale)]}"""
    from yadism import observable_name as on

    grid = [float(x) for x in out["xgrid"]["grid"]]
    pids = [int(p) for p in out["pids"]]
    res = {}
    for name, lst in out.items():
        if not on.ObservableName.is_valid(name) or lst is None:
            continue
        res[name] = []
        for r in lst:
            q2 = float(r.Q2)
            mur = math.sqrt(q2) * xir
            a_s = alpha_s(mur) / (4 * math.pi)
            aem = alpha_qed(mur)
            muf2 = q2 * xif**2
            f = np.zeros((len(pids), len(grid)))
            for i, p in enumerate(pids):
                if pdf.hasFlavor(p):
                    for n, x in enumerate(grid):
                        f[i, n] = pdf.xfxQ2(p, x, muf2) / x
            tot, sc = 0.0, 0.0
            for (k, l, i_, j_), (val, _err) in r.orders.items():
                pref = a_s**k * aem**l * math.log(1.0 / xir**2) ** i_ * math.log(1.0 / xif**2) ** j_
                terms = pref * np.asarray(val, dtype=float) * f
                tot += float(terms.sum())
                sc += float(np.abs(terms).sum())
            res[name].append((tot, sc))
    return res


def check_case(case):
    v = Verdict()
    run._silence()
    out = c15.build_output(case)
    v.label(f"source:{case['source']}")
    for lst in out.values():
        if isinstance(lst, list):
            for r in lst:
                if hasattr(r, "orders") and any(run.maxabs(val[0]) > 1e100 for val in r.orders.values()):
                    v.rejected = True  # outside the domain where products with a PDF stay finite
                    v.label("overflow-domain")
                    return v
    xir, xif = case["xiR"], case["xiF"]
    a0, a1 = case["as_par"]
    e0, e1 = case["aem_par"]
    alpha_s = lambda mu: a0 / (1.0 + a1 * math.log(1.0 + mu))  # noqa: E731
    alpha_qed = lambda mu: e0 + e1 / (1.0 + mu)  # noqa: E731
    f1, f2 = pdfs.SmoothPDF(case["pdf"]), pdfs.SmoothPDF(case["pdf2"])
    nonzero = False
    for name, lst in out.items():
        if isinstance(lst, list) and "_" in name:
            if name.split("_")[0] in configs.XS_KINDS:
                v.label("xs")
            for r in lst:
                if any(k[2] > 0 and k[3] > 0 for k in r.orders) or any(k[1] > 0 for k in r.orders):
                    v.label("mixed-key")

    def compare(tag, got, ref, rtol=1e-11):
        nonlocal nonzero
        if set(got) != set(ref):
            v.fail(f"C17:{tag}:keys", f"observables {sorted(got)} vs expected {sorted(ref)}")
            return
        for name in ref:
            if len(got[name]) != len(ref[name]):
                v.fail(f"C17:{tag}:points", f"{name}: {len(got[name])} predictions for {len(ref[name])} points")
                continue
            for i, (g, (t, s)) in enumerate(zip(got[name], ref[name])):
                d = abs(g["result"] - t)
                v.metric(tag, d / (rtol * s + 1e-300))
                if t != 0:
                    nonzero = True
                if not d <= rtol * s + 1e-300:
                    v.fail(f"C17:{tag}", f"{name}[{i}]: prediction {g['result']!r} != reference {t!r} (scale {s:.3e}, xiR={xir}, xiF={xif})")

    with warnings.catch_warnings():
        warnings.simplefilter("ignore")
        # formula
        v.label("clause:formula")
        got = guarded(out.apply_pdf_alphas_alphaqed_xir_xif, f1, alpha_s, alpha_qed, xir, xif)
        ref1 = reference(out, f1, alpha_s, alpha_qed, xir, xif)
        compare("formula", got, ref1)
        # linearity
        v.label("clause:linear")
        la, lb = case["lin"]

        class Comb:
            def hasFlavor(self, pid):
                return True

            def xfxQ2(self, pid, x, q2):
                return la * f1.xfxQ2(pid, x, q2) + lb * f2.xfxQ2(pid, x, q2)

        gc = guarded(out.apply_pdf_alphas_alphaqed_xir_xif, Comb(), alpha_s, alpha_qed, xir, xif)
        g2 = guarded(out.apply_pdf_alphas_alphaqed_xir_xif, f2, alpha_s, alpha_qed, xir, xif)
        ref2 = reference(out, f2, alpha_s, alpha_qed, xir, xif)
        for name in gc:
            for i, (c, a, b) in enumerate(zip(gc[name], got[name], g2[name])):
                s = abs(la) * ref1[name][i][1] + abs(lb) * ref2[name][i][1]
                d = abs(c["result"] - (la * a["result"] + lb * b["result"]))
                v.metric("linear", d / (1e-11 * s + 1e-300))
                if not d <= 1e-11 * s + 1e-300:
                    v.fail("C17:linear", f"{name}[{i}]: apply(a f + b g) != a apply(f) + b apply(g): |d|={d:.3e} scale {s:.3e}")
        # history on one Output: every application stands on its own - a PDF object that was changed in place since the last
        # call, PDF objects that exist only for the duration of the call (and may reuse the address of the previous one), and a
        # repetition of the very first call
        v.label("clause:reuse")
        fm = pdfs.SmoothPDF(case["pdf"])
        guarded(out.apply_pdf_alphas_alphaqed_xir_xif, fm, alpha_s, alpha_qed, xir, xif)
        fm.params = pdfs.SmoothPDF(case["pdf2"]).params
        compare("reuse:mutated-in-place", guarded(out.apply_pdf_alphas_alphaqed_xir_xif, fm, alpha_s, alpha_qed, xir, xif), ref2)
        del fm
        compare("reuse:temporary", guarded(out.apply_pdf_alphas_alphaqed_xir_xif, pdfs.SmoothPDF(case["pdf"]), alpha_s, alpha_qed, xir, xif), ref1)
        compare("reuse:temporary", guarded(out.apply_pdf_alphas_alphaqed_xir_xif, pdfs.SmoothPDF(case["pdf2"]), alpha_s, alpha_qed, xir, xif), ref2)
        again = guarded(out.apply_pdf_alphas_alphaqed_xir_xif, f1, alpha_s, alpha_qed, xir, xif)
        for name in got:
            for i, (p_, q_) in enumerate(zip(got[name], again[name])):
                if p_["result"] != q_["result"] and not (p_["result"] != p_["result"] and q_["result"] != q_["result"]):
                    v.fail("C17:reuse:repeat", f"{name}[{i}]: the same application gives {q_['result']!r} after other PDFs were applied, {p_['result']!r} before")
        # absent flavours
        v.label("clause:absent")
        present = [p for p in pdfs.ALL if p not in case["absent"]]
        fsub = pdfs.SmoothPDF(case["pdf"], flavors=present, raise_absent=True)
        try:
            gs = out.apply_pdf_alphas_alphaqed_xir_xif(fsub, alpha_s, alpha_qed, xir, xif)
        except KeyError as e:
            v.fail("C17:absent:evaluated", f"xfxQ2 was called for a flavour the PDF does not provide: {e}")
            gs = None
        if gs is not None:
            fzero = pdfs.SmoothPDF(case["pdf"], flavors=present)
            compare("absent", gs, reference(out, fzero, alpha_s, alpha_qed, xir, xif))
        # theory clause
        th = case["apply_theory"]
        mus = set()
        for name, lst in out.items():
            if isinstance(lst, list) and "_" in name:
                for r in lst:
                    mus.add(math.sqrt(float(r.Q2)) * th["XIR"])
        usable = True
        try:
            for mu in mus:
                as_ref(th, mu)
        except NonPerturbative:
            # towards the Landau pole the ODE is ill-conditioned: outside the domain of the alpha_s oracle
            v.label("theory:nonperturbative-skipped")
            usable = False
        if usable:
            for mu in mus:
                n, nontriv = crossing_info(th, mu)
                if n:
                    v.label("theory:crossing")
                if nontriv:
                    v.label("theory:matching-nontrivial")
                if n and th["FNS"] != "ZM-VFNS":
                    v.label("theory:FFNS-nfref-differs")
        if usable and mus:
            v.label("clause:theory", f"theory:{th['FNS'] if th['FNS'] != 'FFN0' else 'FFNS'}", f"theory:pto{th['PTO']}")
            if th.get("PTODIS") is not None and th["PTODIS"] != th["PTO"]:
                v.label("theory:ptodis-differs")
            gt = guarded(out.apply_pdf_theory, f1, th)
            cache = {}

            def as_theory(mu):
                if mu not in cache:
                    cache[mu] = as_ref(th, mu)
                return cache[mu]

            reft = reference(out, f1, as_theory, lambda mu: th["alphaqed"], th["XIR"], th["XIF"])
            # alpha_s enters with powers up to 3: 5e-6 relative on alpha_s -> 2e-5 on the prediction terms
            compare("theory", gt, reft, rtol=2e-5)
            if case["source"] == "real":
                # default: apply_pdf uses the output's own theory card
                own = copy.deepcopy(out.theory)
                own_ok = own["FNS"] in ("FFNS", "FFN0", "ZM-VFNS")
                if own_ok:
                    ga = guarded(out.apply_pdf, f1)
                    gb = guarded(out.apply_pdf_theory, f1, own)
                    for name in ga:
                        for i, (p, q) in enumerate(zip(ga[name], gb[name])):
                            if p["result"] != q["result"]:
                                v.fail("C17:default-theory", f"{name}[{i}]: apply_pdf differs from apply_pdf_theory(out.theory)")
    v.nontrivial = nonzero and (xir, xif) != (1.0, 1.0)
    if v.nontrivial:
        v.label("nontrivial")
    return v


abbreviate = c15.abbreviate


def warmup():
    from .. import warm

    warm.import_all()
    warm.tiny_run()
