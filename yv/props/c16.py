"""C16 - every documented configuration yields a finite result or a clear rejection (lattice enumeration + sampling)."""

import copy
import hashlib
import itertools
import math

import numpy as np
from hypothesis import strategies as st

from .. import cards, configs, run
from ..engine import Verdict, YadismError

ID = "C16"
RULE = (
    "Cells of the documented configuration lattice: kind (6 structure functions + 10 cross-section kinds) x heavyness "
    "(total, light, charm, bottom, top, charmlight, bottomlight, toplight) x process/projectile (EM e-/e+, NC and CC with "
    "e-, e+, nu, nubar) x scheme/NfFF (ZM-VFNS, FFNS/FFN0/FONLL-FFNS/FONLL-FFN0 with NfFF 3-5) x PTO 0-3 x TMC 0-3. "
    "thorough: the sub-lattices listed under 'enumerated' are enumerated completely (one valid and one invalid request "
    "per cell, kinematics derived from the cell), the rest is sampled by Hypothesis; quick: Hypothesis sample. Each cell is "
    "run with two valid kinematic points in one request (interior, on a node, x=1, large/small Q2; one cell in eight in the corner x <= 1e-6, Q2 up to 1e5 on a grid from 1e-7; often in different nf regions; one of the four scale-variation switch settings per cell; in one cell in three the card carries the order of the coefficient functions as PTODIS and an evolution order PTO different from it) and with one invalid request (x<=0, x>1, Q2<=0, x "
    "below the grid, NaN). Oracle (validity predicate): valid request -> all values and errors finite, or an explicit "
    "rejection (a `raise` of ValueError/NotImplementedError/RuntimeError); never an internal error (KeyError, IndexError, "
    "AttributeError, TypeError, ImportError, ZeroDivisionError, ...), never NaN/inf; invalid request -> always an explicit "
    "rejection. Every executed cell counts as non-trivial; distinct = distinct cell+kinematics."
)
ASSUMPTIONS = [
    "one small fixed grid per cell family: the property is about configurations, not interpolation",
    "the scale-variation switches are not an axis of the documented lattice: each cell gets one of the four on/off combinations, "
    "derived from its hash, and two valid points which may lie in different nf regions of one run",
    "the lattice's 'perturbative order' is the order of the coefficient functions (PTODIS, which defaults to PTO); the evolution order PTO, when "
    "the card gives both, rides along like the scale-variation switches (one cell in three, value from the cell hash)",
    "explicit rejection = innermost frame is a raise statement of ValueError/NotImplementedError/RuntimeError (in yadism or in "
    "LeProHQ/eko/adani below it)",
]
BUDGET = {"quick": {"examples": 3200, "wall": 420}, "thorough": {"examples": 24000, "wall": 2400}}
MANDATORY = {
    t: ["valid", "invalid:x<=0", "invalid:x>1", "invalid:Q2<=0", "invalid:below-grid", "invalid:nan", "tmc:0", "tmc:1", "tmc:2", "tmc:3",
        "scheme:ZM-VFNS", "scheme:FFNS", "scheme:FFN0", "scheme:FONLL-FFNS", "scheme:FONLL-FFN0", "xs", "heavylight", "outcome:finite",
        "outcome:rejected", "scale-variations-on", "run-spans-several-nf", "small-x-high-Q2-corner", "evolution-order-above", "evolution-order-below"]
    for t in ("quick", "thorough")
}
SHRINK = {"quick": False, "thorough": False}

HEAVYNESS8 = ["total", "light", "charm", "bottom", "top", "charmlight", "bottomlight", "toplight"]
PROC = [("EM", "electron"), ("EM", "positron")] + [(p, l) for p in ("NC", "CC") for l in cards.PROJECTILES]
SCHEMES13 = [("ZM-VFNS", 4)] + [(s, n) for s in cards.SCHEMES[1:] for n in (3, 4, 5)]
GRID = [1e-4, 1e-3, 1e-2, 0.1, 0.4, 1.0]
# the small-x / high-Q2 corner (where the massive library leaves its reliable range and the runner has to scrub its output): one cell
# in eight is run there, on a grid that reaches it
DEEP = [1e-7, 1e-6, 1e-5, 1e-3, 0.1, 1.0]
CORNER = [{"x": 1e-6, "Q2": 1e5}, {"x": 3e-7, "Q2": 2e4}, {"x": 1e-6, "Q2": 30.0}, {"x": 2e-7, "Q2": 1e5}]
INVALID = ["x<=0", "x>1", "Q2<=0", "below-grid", "nan"]


def cell_case(kind, hv, proc, sch, pto, tmc, salt=0):
    """deterministic kinematics from the cell coordinates"""
    h = int(hashlib.sha1(repr((kind, hv, proc, sch, pto, tmc, salt)).encode()).hexdigest()[:12], 16)
    xs = [0.03, 0.1, 0.25, 0.4, 0.7, 1.0, 0.0123, 0.9]
    q2s = [1.2, 3.0, 10.0, 30.0, 300.0, 1e4, 2.2801, 24.2064]
    valid = [{"x": xs[h % 8], "Q2": q2s[(h // 8) % 8]}, {"x": xs[(h // 64) % 8], "Q2": q2s[(h // 512) % 8]}]
    inv = INVALID[(h // 4096) % 5]
    # scale-variation switches are not a documented axis of the product: they ride along, derived from the cell hash
    sv = [[False, False], [True, True], [False, True], [True, False]][(h // 11) % 4]
    deep = (h // 13) % 8 == 0
    if deep:
        valid = [CORNER[(h // 17) % 4], CORNER[(h // 19) % 4]]
    # PTODIS (the lattice's order) next to a different evolution order PTO: one cell in three
    pto_evol = None
    if (h // 23) % 3 == 0:
        pto_evol = [o for o in range(4) if o != pto][(h // 29) % 3]
    return {"cell": [kind, hv, list(proc), list(sch), pto, tmc], "pto_evol": pto_evol, "deep": deep, "valid": valid, "invalid": inv, "inv_value": (h // 20480) % 3, "y": [0.2, 0.5, 1.0][(h // 7) % 3], "sv": sv}


def lattice(tier):
    if tier != "thorough":
        return []
    out = []
    sf = cards.SFS
    for kind, hv, proc, sch, pto in itertools.product(sf, HEAVYNESS8, PROC, SCHEMES13, range(4)):
        out.append(cell_case(kind, hv, proc, sch, pto, 0))
    for kind, hv, proc, sch, pto, tmc in itertools.product(sf, HEAVYNESS8, PROC, SCHEMES13, (0, 1), (1, 2, 3)):
        out.append(cell_case(kind, hv, proc, sch, pto, tmc))
    sub = [("ZM-VFNS", 4), ("FFNS", 3), ("FFN0", 3), ("FONLL-FFNS", 4)]
    for kind, hv, proc, sch, pto, tmc in itertools.product(configs.XS_KINDS, HEAVYNESS8[:5], PROC, sub, (0, 2), (0, 1)):
        out.append(cell_case(kind, hv, proc, sch, pto, tmc))
    return out


def enumerated(tier):
    return lattice(tier)


def evidence_extra(tier):
    if tier != "thorough":
        return {"enumerated": "none in the quick tier (seeded Hypothesis sample of the lattice)"}
    return {
        "exhaustive": False,
        "enumerated": "complete: 6 SF kinds x 8 heavynesses x 10 process/projectile x 13 scheme/NfFF x PTO 0-3 x TMC 0; "
        "the same x PTO 0-1 x TMC 1-3; 10 XS kinds x 5 heavynesses x 10 x 4 schemes x PTO {0,2} x TMC {0,1}; kinematics per cell "
        "are sampled (2 valid points, 1 invalid request), the remaining cells are sampled by Hypothesis",
    }


@st.composite
def cases(draw, tier="quick"):
    kind = draw(st.sampled_from(cards.SFS + cards.SFS + configs.XS_KINDS))
    hv = draw(st.sampled_from(HEAVYNESS8))
    proc = draw(st.sampled_from(PROC))
    sch = draw(st.sampled_from(SCHEMES13))
    pto = draw(st.integers(0, 3))
    tmc = draw(st.integers(0, 3))
    c = cell_case(kind, hv, proc, sch, pto, tmc, salt=draw(st.integers(0, 10**6)))
    # generated kinematics on top of the derived ones
    x = draw(st.sampled_from([1.0, 0.1, 1e-3, GRID[0]]) | st.floats(2e-4, 1.0))
    q2 = draw(st.sampled_from([1.0, 2.2801, 24.2064]) | cards.q2_values(0.3, 1e6))
    if not c["deep"]:
        c["valid"] = [c["valid"][0], {"x": x, "Q2": q2}]
    c["invalid"] = draw(st.sampled_from(INVALID))
    c["inv_value"] = draw(st.integers(0, 2))
    c["pto_evol"] = draw(st.sampled_from([None, None, None, 0, 1, 2, 3]))
    if c["pto_evol"] == pto:
        c["pto_evol"] = None
    return c


def invalid_point(cls, i):
    table = {
        "x<=0": [0.0, -0.1, -1e-12],
        "x>1": [1.0000001, 1.5, 1e3],
        "Q2<=0": [0.0, -1.0, -1e-9],
        "below-grid": [GRID[0] * 0.999, GRID[0] / 10, 1e-9],
        "nan": ["x", "Q2", "x"],
    }
    val = table[cls][i]
    if cls == "Q2<=0":
        return {"x": 0.1, "Q2": val}
    if cls == "nan":
        return {"x": math.nan, "Q2": 10.0} if val == "x" else {"x": 0.1, "Q2": math.nan}
    return {"x": val, "Q2": 10.0}


def build(case, kins):
    kind, hv, (process, proj), (scheme, nfff), pto, tmc = case["cell"]
    ren, fact = case.get("sv", [False, False])
    th = cards.theory(PTO=pto, FNS=scheme, NfFF=nfff, TMC=tmc, RenScaleVar=ren, FactScaleVar=fact)
    if case.get("pto_evol") is not None:
        th["PTODIS"], th["PTO"] = pto, case["pto_evol"]
    if pto == 3 and scheme != "ZM-VFNS":
        # the three documented variants of the approximate N3LO massive coefficient functions, from the cell coordinates
        th["n3lo_cf_variation"] = [0, 1, -1][(len(kind) + len(hv) + nfff + tmc + len(process)) % 3]
    deep = case.get("deep") and all(k.get("x") in [c["x"] for c in CORNER] for k in kins)
    ob = cards.observables(prDIS=process, ProjectileDIS=proj, interpolation_xgrid=list(DEEP if deep else GRID), interpolation_polynomial_degree=3)
    name = f"{kind}_{hv}"
    if kind in configs.XS_KINDS:
        kins = [dict(k, y=case["y"]) for k in kins]
    ob["observables"] = {name: kins}
    return th, ob, name


def finite(res):
    for r in res:
        for val, err in r.orders.values():
            if not (np.all(np.isfinite(val)) and np.all(np.isfinite(err))):
                return False
    return True


def cellsig(case):
    kind, hv, (process, proj), (scheme, nfff), pto, tmc = case["cell"]
    return f"{kind}:{process}:{scheme}:pto{pto}"


def check_case(case):
    v = Verdict()
    kind, hv, (process, proj), (scheme, nfff), pto, tmc = case["cell"]
    v.label("valid", f"tmc:{tmc}", f"scheme:{scheme}", f"pto:{pto}", f"process:{process}", f"kind:{kind}")
    if kind in configs.XS_KINDS:
        v.label("xs")
    if hv.endswith("light") and hv != "light":
        v.label("heavylight")
    v.nontrivial = True
    if any(case.get("sv", [False, False])):
        v.label("scale-variations-on")
    if case.get("deep"):
        v.label("small-x-high-Q2-corner")
    pe = case.get("pto_evol")
    if pe is not None:
        v.label("evolution-order-above" if pe > pto else "evolution-order-below")
    if True:
        nfs = {cards.nf_ref(cards.theory(FNS=scheme, NfFF=nfff), k["Q2"]) for k in case["valid"] if k["Q2"] > 0}
        if len(nfs) > 1:
            v.label("run-spans-several-nf")
    evo = "" if pe is None else f" as PTODIS with evolution order PTO={pe}"
    # ---- valid request
    th, ob, name = build(case, case["valid"])
    try:
        out = run.run(th, ob)
        res = out[name]
        if len(res) != len(ob["observables"][name]) or any(np.shape(val) != (14, len(GRID)) or np.shape(err) != (14, len(GRID)) for r in res for val, err in r.orders.values()):
            v.fail(f"C16:shape:{kind}:{process}", f"{name}: {len(res)} results / tensor shapes do not match the request ({len(ob['observables'][name])} points, 14 x {len(GRID)})")
        if finite(out[name]):
            v.label("outcome:finite")
        else:
            v.label("outcome:nonfinite")
            v.fail(f"C16:nonfinite:{kind}:{process}:{scheme}:pto{pto}:{'light' if hv=='light' else 'heavy-or-total'}", f"{name} ({process}/{proj}, {scheme} NfFF={nfff}, PTO={pto}{evo}, TMC={tmc}) returned NaN/inf at {case['valid']}")
    except YadismError as e:
        if e.explicit:
            v.label("outcome:rejected", f"rejected:{e.sig}")
        else:
            v.label("outcome:internal-error")
            v.fail(f"C16:internal:{e.sig}", f"{name} ({process}/{proj}, {scheme} NfFF={nfff}, PTO={pto}{evo}, TMC={tmc}) at {case['valid']}: {e}")
    # ---- invalid request
    cls = case["invalid"]
    v.label(f"invalid:{cls}")
    pt = invalid_point(cls, case["inv_value"])
    th, ob, name = build(case, [pt])
    try:
        out = run.run(th, ob)
        v.fail(f"C16:invalid-accepted:{cls}:{'tmc' if tmc else 'plain'}:{'xs' if kind in configs.XS_KINDS else 'sf'}", f"{name} with TMC={tmc} accepted the invalid kinematics {pt} (finite={finite(out[name])})")
    except YadismError as e:
        if not e.explicit:
            v.fail(f"C16:invalid-internal:{cls}:{e.sig}", f"{name} with TMC={tmc} at invalid kinematics {pt}: {e}")
    return v


def abbreviate(case):
    return case


def warmup():
    from .. import warm

    warm.import_all()
    warm.tiny_run()
