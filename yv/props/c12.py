"""C12 - nuclear target = isospin rotation of up and down (metamorphic: target run vs proton run)."""

import copy

import numpy as np
from hypothesis import strategies as st

from .. import cards, configs, run
from ..engine import Verdict

ID = "C12"
RULE = (
    "Hypothesis draws a complete run card (structure functions and cross sections, all processes/"
    "schemes/heavynesses, PTO 0-3, optional TMC and scale variations) and a target: one of the seven "
    "documented names or a generated real (Z,A) with 0<=Z<=A given as a mapping in either key order (Z first, or A first as a key-sorting YAML round trip returns it). The target run is compared, for every order "
    "key and operator entry, with the proton run rotated by the documented 2x2 matrix (Z, A-Z; A-Z, Z)/A "
    "acting on (u,d) and (ubar,dbar); the name->(Z,A) table is typed independently. Non-trivial = the "
    "proton u and d rows differ and Z != A."
)
ASSUMPTIONS = [
    "name -> (Z,A) table typed from docs/theory/misc.rst (proton, neutron, isoscalar) and from the physics "
    "stated next to the implementation (NuTeV steel 23.403/49.618, Pb 82/208, Ne 10/20, CaCO3 average 10/20)",
    "configurations excluded by construction (documented gaps, explicitly rejected by the code): polarised CC, polarised N3LO, TMC for gL/g4",
]
BUDGET = {"quick": {"examples": 2400, "wall": 300}, "thorough": {"examples": 40000, "wall": 2400}}
MANDATORY = {t: ["nontrivial", "target:name", "target:ZA", "target:ZA:ZA", "target:ZA:AZ", "xs", "tmc:on"] for t in ("quick", "thorough")}
SHRINK = {"quick": False, "thorough": True}
abbreviate = configs.abbreviate

TABLE = {
    "proton": (1.0, 1.0),
    "neutron": (0.0, 1.0),
    "isoscalar": (1.0, 2.0),
    "iron": (23.403, 49.618),
    "lead": (82.0, 208.0),
    "neon": (10.0, 20.0),
    "marble": ((20 + 3 * 8 + 6) / 5, (40 + 3 * 16 + 12) / 5),
}
RTOL = 1e-10  # S is max|tensor| of the key, not the absolute-value sum of the (cancelling) kernel terms


@st.composite
def cases(draw, tier="quick"):
    cfg = draw(
        configs.config(
            kinds=cards.SFS + configs.XS_KINDS,
            max_pto=3,
            tmcs=(0, 0, 0, 0, 1, 2, 3),
            sv=True,
            targets=("ZA", "ZA", "neutron", "isoscalar", "iron", "lead", "neon", "marble", "proton"),
            grid_kw={"nmax": 9},
            x_classes=["interior", "node", "near_node", "large"],
        )
    )
    if cfg["theory"]["TMC"] and cfg["meta"]["pto"] > 1:
        cfg["theory"]["PTO"] = cfg["meta"]["pto"] = 1
    if (cfg["theory"]["RenScaleVar"] or cfg["theory"]["FactScaleVar"]) and cfg["meta"]["pto"] > 2:
        cfg["theory"]["PTO"] = cfg["meta"]["pto"] = 2
    configs.split_orders(draw, cfg["theory"], cfg["meta"])
    return cfg


def check_case(case):
    v = Verdict()
    th, ob, meta = case["theory"], case["obs"], case["meta"]
    name = meta["name"]
    tgt = ob["TargetDIS"]
    if isinstance(tgt, str):
        z, a = TABLE[tgt]
        v.label("target:name", f"target:{tgt}")
    else:
        z, a = tgt["Z"], tgt["A"]
        v.label("target:ZA", "target:ZA:" + "".join(tgt))
    if meta["kind"] in configs.XS_KINDS:
        v.label("xs")
    v.label("tmc:on" if th["TMC"] else "tmc:off", f"pto:{meta['pto']}", f"scheme:{meta['scheme']}")
    obp = copy.deepcopy(ob)
    obp["TargetDIS"] = "proton"
    rt, rp = run.run(th, ob)[name], run.run(th, obp)[name]
    rot = np.array([[z, a - z], [a - z, z]]) / a
    nz = False
    for t, p in zip(rt, rp):
        tt, tp = run.tensors(t), run.tensors(p)
        if list(tt) != list(tp):
            v.fail("C12:keys", "order keys differ between target and proton run")
            continue
        floor = run.noise_floor(tp, tt)
        for k in tp:
            exp = np.array(tp[k], copy=True)
            for sgn in (1, -1):
                u, d = tp[k][run.ROW[2 * sgn]], tp[k][run.ROW[1 * sgn]]
                exp[run.ROW[2 * sgn]] = rot[0, 0] * u + rot[0, 1] * d
                exp[run.ROW[1 * sgn]] = rot[1, 0] * u + rot[1, 1] * d
                if not np.array_equal(u, d):
                    nz = True
            s = max(run.maxabs(tp[k]), run.maxabs(tt[k]))
            dlt = run.maxabs(tt[k] - exp)
            v.metric("rotation", dlt / (RTOL * s + floor))
            if not dlt <= RTOL * s + floor:
                rows = [run.PIDS[i] for i in np.unique(np.nonzero(np.abs(tt[k] - exp) > RTOL * s + floor)[0])]
                v.fail(
                    f"C12:rotation:{meta['process']}:{meta['kind']}:{meta['heavyness']}",
                    f"target(Z={z},A={a}) != rotated proton: |d|={dlt:.3e} scale {s:.3e} key {k} rows {rows}",
                )
    v.nontrivial = nz and z != a
    if v.nontrivial:
        v.label("nontrivial")
    return v


def warmup():
    from .. import warm

    warm.import_all()
    warm.tiny_run()
