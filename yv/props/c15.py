"""C15 - serialised output round-trips losslessly (tar and YAML, chained cycles)."""

import copy
import io
import os
import shutil
import tempfile
import warnings

import numpy as np
from hypothesis import strategies as st

from .. import cards, configs, pdfs, run, snapshot
from ..engine import Verdict, guarded

ID = "C15"
RULE = (
    "Hypothesis draws (i) real runner outputs: mixed structure functions / cross sections, PTO 0-3 with scale "
    "variations (1-21 order keys), TMC, empty kinematic lists, kinematics given as numpy scalars, or (ii) synthetic "
    "Output objects with arbitrary order keys, shapes and values (-0.0, subnormals, 1e+-300), None observables, nf "
    "None/int; then a chain of 1-3 dump/load cycles over {tar, yaml}; in half of the cases the tar file name has a past (a different output "
    "was dumped to and loaded from the same path just before, and all tar cycles of the chain reuse it) and a future (after the chain an output with other cards is "
    "dumped and loaded in both formats, then every object loaded earlier is compared once more). Oracle: after every cycle the loaded object "
    "has identical keys, kinematics (x,Q2,y,nf), order-key list in the same order, bitwise identical values and "
    "errors, grid/degree/log/pids/projectile and cards, and bitwise identical apply_pdf predictions for a generated "
    "PDF. Non-trivial = at least one observable with >=1 point and >=2 order keys, or a chain of >=2 cycles."
)
ASSUMPTIONS = [
    "container types may change (list vs ndarray, tuple vs list): only values are compared",
    "a dump that *refuses* (raises) loses nothing and is counted as rejected; a dump that succeeds followed by a load "
    "that fails or differs is a violation",
    "synthetic outputs keep order keys uniform within one observable (documented precondition of dump_tar)",
]
BUDGET = {"quick": {"examples": 1600, "wall": 300}, "thorough": {"examples": 40000, "wall": 2400}}
MANDATORY = {
    t: ["nontrivial", "source:real", "source:synthetic", "fmt:tar", "fmt:yaml", "chain:3", "xs", "empty-kinematics", "none-observable",
        "numpy-kinematics", "special-values", "file-name-reused-with-other-content", "something-else-loaded-afterwards"]
    for t in ("quick", "thorough")
}
SHRINK = {"quick": False, "thorough": True}
SPECIAL = [0.0, -0.0, 5e-324, 2.2250738585072014e-308, 1e300, -1e300, 1e-300, 1.0, 0.1, 1 / 3]


@st.composite
def synthetic(draw):
    n = draw(cards.ints(2, 5))
    grid = sorted(draw(st.lists(st.floats(1e-6, 0.99), min_size=n - 1, max_size=n - 1, unique=True))) + [1.0]
    obs = {}
    names = draw(st.lists(st.sampled_from(["F2_total", "FL_light", "F3_charm", "g1_total", "XSHERANC_total", "XSCHORUSCC_charm", "F1_light"]), unique=True, min_size=1, max_size=3))
    for name in names:
        if draw(st.integers(0, 5)) == 0:
            obs[name] = None
            continue
        isxs = name.split("_")[0] in configs.XS_KINDS
        nk = draw(st.integers(0, 3))
        keys = draw(st.lists(st.tuples(st.integers(0, 3), st.integers(0, 2), st.integers(0, 3), st.integers(0, 3)), unique=True, min_size=1, max_size=4))
        pts = []
        for _ in range(nk):
            p = {"x": draw(st.floats(1e-6, 1.0)), "Q2": draw(st.floats(0.5, 1e6)), "nf": draw(st.sampled_from([None, 3, 4, 5]))}
            if isxs:
                p["y"] = draw(st.floats(1e-6, 1.0))
            p["orders"] = []
            for k in keys:
                vals = [[draw(st.sampled_from(SPECIAL) | st.floats(-1e3, 1e3)) for _ in range(n)] for _ in range(14)]
                errs = [[draw(st.sampled_from([0.0, 1e-13, 5e-324]) | st.floats(0, 1e-3)) for _ in range(n)] for _ in range(14)]
                p["orders"].append({"order": list(k), "values": vals, "errors": errs})
            pts.append(p)
        obs[name] = pts
    return {
        "source": "synthetic",
        "grid": grid,
        "log": draw(st.booleans()),
        "degree": draw(cards.ints(1, n - 1)),
        "projectilePID": draw(st.sampled_from([11, -11, 12, -12])),
        "results": obs,
        "theory": {"PTO": draw(st.integers(0, 3)), "FNS": "ZM-VFNS", "mc": draw(st.floats(1, 2)), "CKM": cards.CKM_STR, "flag": draw(st.booleans()), "none": None},
        "observables_card": {"prDIS": "NC", "interpolation_xgrid": grid, "TargetDIS": {"Z": 1.0, "A": 1.0}},
    }


@st.composite
def real(draw):
    cfg = draw(
        configs.config(
            kinds=cards.SFS + configs.XS_KINDS,
            max_pto=3,
            tmcs=(0, 0, 0, 1),
            sv=True,
            targets=("proton", "iron", "ZA"),
            grid_kw={"nmax": 6},
            x_classes=["interior", "node"],
            n_points=(0, 3),
        )
    )
    th, meta = cfg["theory"], cfg["meta"]
    if th["TMC"] and meta["pto"] > 1:
        th["PTO"] = meta["pto"] = 1
    if (th["RenScaleVar"] or th["FactScaleVar"]) and meta["pto"] > 2 and meta["scheme"] != "ZM-VFNS":
        th["PTO"] = meta["pto"] = 2
    cfg["source"] = "real"
    cfg["extra"] = draw(st.sampled_from([None, "F2_total", "FL_light", "XSHERANCAVG_total", "F1_total"]))
    cfg["numpy_kin"] = draw(st.booleans())
    return cfg


@st.composite
def cases(draw, tier="quick"):
    base = draw(st.one_of(real(), synthetic()))
    base["chain"] = draw(st.lists(st.sampled_from(["tar", "yaml"]), min_size=1, max_size=3))
    base["pdf"] = pdfs.smooth_params(draw, st)
    # history: another output was written to and read from the very same file name before
    base["decoy"] = draw(st.booleans())
    return base


FUZZ = {"thorough": {"runs": 6000, "children": 4, "wall": 900}}


@st.composite
def fuzz_cases(draw):
    """cheap cases for the coverage-guided driver: synthetic outputs only (no runner call)"""
    base = draw(synthetic())
    base["chain"] = draw(st.lists(st.sampled_from(["tar", "yaml"]), min_size=1, max_size=3))
    base["pdf"] = pdfs.smooth_params(draw, st)
    base["decoy"] = draw(st.booleans())
    return base


def build_output(case):
    from yadism.esf.result import ESFResult, EXSResult
    from yadism.output import Output

    if case["source"] == "real":
        th, ob = copy.deepcopy(case["theory"]), copy.deepcopy(case["obs"])
        name = case["meta"]["name"]
        if case["extra"] and case["extra"] != name:
            kin = [{"x": p["x"], "Q2": p["Q2"]} for p in ob["observables"][name]]
            if case["extra"].split("_")[0] in configs.XS_KINDS:
                kin = [dict(p, y=0.3) for p in kin]
            ob["observables"][case["extra"]] = kin
        if case["numpy_kin"]:
            for n in ob["observables"]:
                ob["observables"][n] = [{k: np.float64(v) for k, v in p.items()} for p in ob["observables"][n]]
        import yadism

        with warnings.catch_warnings():
            warnings.simplefilter("ignore")
            return guarded(yadism.run_yadism, th, ob)
    out = Output()
    out["xgrid"] = {"grid": list(case["grid"]), "log": case["log"]}
    out["polynomial_degree"] = case["degree"]
    out["is_log"] = case["log"]
    out["pids"] = [22, -6, -5, -4, -3, -2, -1, 21, 1, 2, 3, 4, 5, 6]
    out["projectilePID"] = case["projectilePID"]
    for name, pts in case["results"].items():
        if pts is None:
            out[name] = None
            continue
        lst = []
        for p in pts:
            orders = {tuple(o["order"]): (np.array(o["values"], dtype=float), np.array(o["errors"], dtype=float)) for o in p["orders"]}
            if "y" in p:
                lst.append(EXSResult(p["x"], p["Q2"], p["y"], p["nf"], orders))
            else:
                lst.append(ESFResult(p["x"], p["Q2"], p["nf"], orders))
        out[name] = lst
    out.theory = copy.deepcopy(case["theory"])
    out.observables = copy.deepcopy(case["observables_card"])
    return out


def bits(a):
    return np.ascontiguousarray(np.asarray(a, dtype=float)).tobytes()


def compare(v, ref, got, tag, pdf):
    from yadism import observable_name as on

    def fail(clause, msg):
        v.fail(f"C15:{clause}:{tag}", msg)

    if set(ref.keys()) != set(got.keys()):
        fail("keys", f"top-level keys differ: {sorted(set(ref) ^ set(got))}")
        return
    if bits(ref["xgrid"]["grid"]) != bits(got["xgrid"]["grid"]) or bool(ref["xgrid"]["log"]) != bool(got["xgrid"]["log"]):
        fail("grid", "interpolation grid or log flag changed")
    for k in ("polynomial_degree", "is_log", "projectilePID"):
        if snapshot.plain(ref.get(k)) != snapshot.plain(got.get(k)):
            fail("meta", f"{k}: {ref.get(k)!r} -> {got.get(k)!r}")
    if [int(p) for p in ref["pids"]] != [int(p) for p in np.asarray(got["pids"]).tolist()]:
        fail("meta", "pids changed")
    if snapshot.plain(ref.theory) != snapshot.plain(got.theory):
        fail("cards", "theory card changed")
    if snapshot.plain(ref.observables) != snapshot.plain(got.observables):
        fail("cards", "observable card changed")
    for name in ref:
        if not on.ObservableName.is_valid(name):
            continue
        a, b = ref[name], got[name]
        if a is None or b is None:
            if not (a is None and b is None):
                fail("none", f"{name}: None-ness changed")
            continue
        if len(a) != len(b):
            fail("points", f"{name}: {len(a)} points -> {len(b)}")
            continue
        for i, (ra, rb) in enumerate(zip(a, b)):
            if hasattr(ra, "y") != hasattr(rb, "y"):
                fail("type", f"{name}[{i}]: cross-section/structure-function type changed")
                continue
            kin_a = [float(ra.x), float(ra.Q2)] + ([float(ra.y)] if hasattr(ra, "y") else [])
            kin_b = [float(rb.x), float(rb.Q2)] + ([float(rb.y)] if hasattr(rb, "y") else [])
            if bits(kin_a) != bits(kin_b):
                fail("kinematics", f"{name}[{i}]: {kin_a} -> {kin_b}")
            nfa = None if ra.nf is None else int(ra.nf)
            nfb = None if rb.nf is None else int(rb.nf)
            if nfa != nfb:
                fail("nf", f"{name}[{i}]: nf {ra.nf!r} -> {rb.nf!r}")
            ka, kb = [tuple(int(j) for j in k) for k in ra.orders], [tuple(int(j) for j in k) for k in rb.orders]
            if ka != kb:
                fail("orders", f"{name}[{i}]: order keys {ka} -> {kb}")
                continue
            for k1, k2 in zip(ra.orders, rb.orders):
                va, ea = ra.orders[k1]
                vb, eb = rb.orders[k2]
                if np.shape(va) != np.shape(vb) or bits(va) != bits(vb):
                    fail("values", f"{name}[{i}] {k1}: values not bitwise identical")
                if np.shape(ea) != np.shape(eb) or bits(ea) != bits(eb):
                    fail("errors", f"{name}[{i}] {k1}: errors not bitwise identical")
    # predictions
    try:
        pa = ref.apply_pdf_alphas_alphaqed_xir_xif(pdf, lambda q: 0.2, lambda q: 0.01, 1.3, 0.7)
        pb = guarded(got.apply_pdf_alphas_alphaqed_xir_xif, pdf, lambda q: 0.2, lambda q: 0.01, 1.3, 0.7)
    except Exception as e:  # pylint: disable=broad-except
        fail("predictions", f"apply_pdf on the loaded object raised {type(e).__name__}: {e}")
        return
    if set(pa) != set(pb):
        fail("predictions", "prediction keys differ")
        return
    for name in pa:
        for i, (x, y) in enumerate(zip(pa[name], pb[name])):
            if bits([x["result"], x["error"]]) != bits([y["result"], y["error"]]):
                fail("predictions", f"{name}[{i}]: prediction {x['result']!r} -> {y['result']!r}")


def check_case(case):
    from yadism.output import Output

    v = Verdict()
    run._silence()
    out0 = build_output(case)
    pdf = pdfs.SmoothPDF(case["pdf"])
    v.label(f"source:{case['source']}", f"chain:{len(case['chain'])}")
    nkeys, npts = 0, 0
    for name, val in out0.items():
        if isinstance(val, list) and name.split("_")[0] in cards.SFS + configs.XS_KINDS:
            if name.split("_")[0] in configs.XS_KINDS:
                v.label("xs")
            if len(val) == 0:
                v.label("empty-kinematics")
            for r in val:
                npts += 1
                nkeys = max(nkeys, len(r.orders))
        elif val is None and "_" in name:
            v.label("none-observable")
    if case["source"] == "real" and case.get("numpy_kin"):
        v.label("numpy-kinematics")
    if case["source"] == "synthetic":
        v.label("special-values")
    tmp = tempfile.mkdtemp(prefix="yv_c15_")
    try:
        cur = out0
        loaded = []
        slot = os.path.join(tmp, "slot.tar")
        if case.get("decoy") and "tar" in case["chain"]:
            # the file name has a past: a different output went through it (dump, load) before the one under test
            try:
                decoy = build_output(case)
                changed = False
                for name, val in decoy.items():
                    if isinstance(val, list) and "_" in name and val and hasattr(val[0], "orders"):
                        for r in val:
                            for k in list(r.orders):
                                a, e = r.orders[k]
                                r.orders[k] = (np.asarray(a, dtype=float) * -2.0 + 1.0, e)
                                changed = True
                        if len(val) >= 2:
                            val.pop()
                decoy.dump_tar(slot)
                Output.load_tar(slot)
                if changed:
                    v.label("file-name-reused-with-other-content")
            except Exception:  # pylint: disable=broad-except
                v.label("decoy-failed")
        for i, fmt in enumerate(case["chain"]):
            v.label(f"fmt:{fmt}")
            tag = fmt
            try:
                if fmt == "tar":
                    path = slot if case.get("decoy") else os.path.join(tmp, f"o{i}.tar")
                    cur.dump_tar(path)
                else:
                    stream = io.StringIO()
                    cur.dump_yaml(stream)
            except Exception as e:  # pylint: disable=broad-except
                # a refused dump loses nothing - unless the object is a plain runner output without numpy cards
                v.label(f"dump-refused:{fmt}:{type(e).__name__}")
                if case["source"] == "real" and case.get("numpy_kin"):
                    v.rejected = True
                    return v
                v.fail(f"C15:dump-raises:{fmt}:{type(e).__name__}", f"dump_{fmt} raised {type(e).__name__}: {e}")
                return v
            try:
                if fmt == "tar":
                    nxt = Output.load_tar(path)
                else:
                    stream.seek(0)
                    nxt = Output.load_yaml(stream)
            except Exception as e:  # pylint: disable=broad-except
                v.fail(f"C15:load-raises:{fmt}:{type(e).__name__}", f"load_{fmt} of a successful dump raised {type(e).__name__}: {str(e)[:200]}")
                return v
            compare(v, out0, nxt, tag, pdf)
            if v.failures:
                return v
            loaded.append((tag, nxt))
            cur = nxt
        if case.get("decoy") and loaded:
            # objects loaded earlier stay what they were when something else is loaded afterwards (tar and yaml)
            try:
                other = build_output(case)
                other.theory = dict(other.theory or {}, Comments="another card", ID=4242)
                other.observables = dict(other.observables or {}, Comments="another card")
                for name, val in other.items():
                    if isinstance(val, list) and "_" in name and len(val) >= 2 and hasattr(val[0], "orders"):
                        val.pop()
                p2 = os.path.join(tmp, "other.tar")
                other.dump_tar(p2)
                Output.load_tar(p2)
                stream = io.StringIO()
                other.dump_yaml(stream)
                stream.seek(0)
                Output.load_yaml(stream)
                v.label("something-else-loaded-afterwards")
            except Exception:  # pylint: disable=broad-except
                v.label("decoy-failed")
            for tag, obj in loaded:
                compare(v, out0, obj, tag + ":after-another-load", pdf)
                if v.failures:
                    return v
    finally:
        shutil.rmtree(tmp, ignore_errors=True)
    v.nontrivial = (npts >= 1 and nkeys >= 2) or len(case["chain"]) >= 2
    if v.nontrivial:
        v.label("nontrivial")
    return v


def abbreviate(case):
    c = {k: v for k, v in case.items() if k not in ("pdf", "results")}
    if "results" in case:
        c["results"] = {n: (None if p is None else f"{len(p)} points x {len(p[0]['orders']) if p else 0} orders") for n, p in case["results"].items()}
    return configs.abbreviate(c)


def warmup():
    from .. import warm

    warm.import_all()
    warm.tiny_run()
