"""C10 - target-mass-corrected results equal the published formulas (formula oracle on bare runs)."""

import copy
import math
import warnings

import numpy as np
from hypothesis import strategies as st
from scipy.integrate import quad

from .. import basis, cards, configs, run
from ..engine import Verdict, YadismError

ID = "C10"
RULE = (
    "Hypothesis draws a grid, x (interior, on a node, near the top, with xi(x) inside and just outside the grid), Q2, target mass "
    "M in [0,3] GeV plus tiny M, TMC mode 1 (APFEL), 2 (approximate), 3 (exact), kind F2/FL/F3/g1, heavyness, process, scheme, "
    "PTO<=2. Oracle: one auxiliary TMC=0 run gives the bare operators at xi and at every grid node; with rho, xi, mu=M2/Q2 typed "
    "from the papers the Georgi-Politzer/Schienbein et al. master formulas (F2, F1 -> FL=r2F2-2xF1, F3) and the Piccione-Ridolfi/"
    "Accardi-Melnitchouk formula (g1) are evaluated on yadism's normalised objects (F2, FL, xF3, 2xg1); the integrals h2, g2, h3, "
    "k1, k2 are taken over the same interpolant of the bare structure function (sum_j F(x_j) int kernel p_j) with the reference "
    "basis and quadrature. APFEL = exact without the double integral (g2 / k2); approximate = Schienbein's closed forms for F2, F3 "
    "and the documented 'integrand frozen at xi' rule for FL, g1. Plus: M=0 gives exactly the bare result; xi below the grid is "
    "rejected with a ValueError. Non-trivial = mu x^2 > 1e-3 and at least two nodes above xi."
)
ASSUMPTIONS = [
    "master formulas typed from memory of Schienbein et al. (J.Phys.G35:053101) eqs. 19-23 and Piccione-Ridolfi (NPB513:301) eq. 19; "
    "h3 = int du F3/u, i.e. int du (xF3)(u)/u^2 for yadism's object; the corrected g1 object is 2x g1(x)",
    "tolerance (1e-6 + 4e-9/(1-xi)) of the absolute-value sum of the terms: the integrals are quadratures over the same interpolant, "
    "yadism cuts 1e-10 off the ends of [xi,1] (measured agreement <=1.2e-7, formula errors are >=1e-3)",
]
BUDGET = {"quick": {"examples": 2400, "wall": 420, "min_evaluations": 400}, "thorough": {"examples": 60000, "wall": 2400, "min_evaluations": 4000}}
MANDATORY = {
    t: ["nontrivial", "mode:1", "mode:2", "mode:3", "kind:F2", "kind:FL", "kind:F3", "kind:g1", "clause:formula", "clause:M=0", "clause:xi-below-grid", "pto:1", "x:node"]
    for t in ("quick", "thorough")
}
SHRINK = {"quick": False, "thorough": True}
abbreviate = configs.abbreviate


@st.composite
def cases(draw, tier="quick"):
    kind = draw(st.sampled_from(["F2", "FL", "F3", "g1"]))
    procs = ("NC", "EM") if kind == "g1" else ("NC", "CC", "EM")
    cfg = draw(
        configs.config(
            kinds=(kind,),
            processes=procs,
            max_pto=2,
            tmcs=(1, 2, 3),
            targets=("proton", "ZA"),
            grid_kw={"nmin": 5, "nmax": 9, "umax": 3.5},
            n_points=(1, 1),
            q2range=(1.0, 200.0),
            x_classes=["interior", "interior", "node", "large"],
        )
    )
    th, meta = cfg["theory"], cfg["meta"]
    if meta["scheme"] != "ZM-VFNS" and meta["pto"] > 1:
        th["PTO"] = meta["pto"] = 1
    clause = draw(st.sampled_from(["formula", "formula", "formula", "M=0", "xi-below-grid"]))
    cfg["clause"] = clause
    g = cfg["obs"]["interpolation_xgrid"]
    kin = cfg["obs"]["observables"][meta["name"]][0]
    if clause == "formula":
        th["MP"] = draw(st.sampled_from([0.938, 0.938, 1e-3, 1e-6, 1e-9]) | st.floats(0.1, 3.0).map(lambda m: round(m, 4)))
        # xi(x) must stay inside the grid
        mu = th["MP"] ** 2 / kin["Q2"]
        xmin_needed = g[0] * 1.001
        x = max(kin["x"], xmin_needed * (1 + mu * xmin_needed) * 1.05)
        kin["x"] = min(x, 0.999)
    elif clause == "M=0":
        th["MP"] = 0.0
    else:
        th["MP"] = round(draw(st.floats(0.5, 3.0)), 4)
        kin["Q2"] = round(draw(st.floats(1.0, 4.0)), 4)
        kin["x"] = g[0] * (1 + draw(st.floats(1e-9, 1e-3)))  # x in the grid, xi below it
    return cfg


def interp_integral(b, xi, kernel):
    """w_j = int_xi^1 du kernel(u) p_j(u), pieces between nodes"""
    w = np.zeros(b.n)
    edges = [xi] + [x for x in b.x if x > xi]
    for lo, hi in zip(edges[:-1], edges[1:]):
        i = b.interval(0.5 * (lo + hi))
        a, bb = b.blocks[i]
        for j in range(a, bb + 1):
            tj = b.t[j]

            def f(u, j=j, a=a, bb=bb):
                tt = math.log(u) if b.log else u
                num = den = 1.0
                for k in range(a, bb + 1):
                    if k != j:
                        num *= tt - b.t[k]
                        den *= b.t[j] - b.t[k]
                return kernel(u) * num / den

            w[j] += quad(lambda t, f=f: f(math.exp(t)) * math.exp(t), math.log(lo), math.log(hi), epsabs=0, epsrel=1e-11, limit=200)[0]
    return w


def check_case(case):
    v = Verdict()
    th, ob, meta, clause = case["theory"], case["obs"], case["meta"], case["clause"]
    name, kind, mode = meta["name"], meta["kind"], th["TMC"]
    kin = ob["observables"][name][0]
    x, q2, m = kin["x"], kin["Q2"], th["MP"]
    b = basis.Basis(ob["interpolation_xgrid"], ob["interpolation_polynomial_degree"], ob["interpolation_is_log"])
    v.label(f"clause:{clause}", f"mode:{mode}", f"kind:{kind}", f"pto:{th['PTO']}", f"scheme:{meta['scheme']}")
    if x in b.x:
        v.label("x:node")
    mu = m * m / q2
    rho = math.sqrt(1.0 + 4.0 * x * x * mu)
    xi = 2.0 * x / (1.0 + rho)
    th0 = dict(th, TMC=0)
    with warnings.catch_warnings(), np.errstate(all="ignore"):
        warnings.simplefilter("ignore")
        if clause == "xi-below-grid":
            if not xi < b.x[0]:
                v.rejected = True
                return v
            try:
                run.run(th, ob)
            except YadismError as e:
                if e.type == "ValueError" and ("xgrid" in e.msg or "grid" in e.msg):
                    v.nontrivial = True
                    v.label("nontrivial")
                    return v
                v.fail(f"C10:xi-below-grid:wrong-error:{e.type}", f"xi={xi!r} below xmin={b.x[0]!r}: raised {e}")
                return v
            if mode == 2 and kind in ("F2", "F3"):
                v.fail("C10:xi-below-grid:accepted", f"{name} TMC={mode}: xi={xi!r} < xmin={b.x[0]!r} was accepted")
            else:
                v.fail("C10:xi-below-grid:accepted", f"{name} TMC={mode}: xi={xi!r} < xmin={b.x[0]!r} was accepted")
            return v
        got = run.tensors(run.run(th, ob)[name][0])
        hv = meta["heavyness"]
        # bare operators: the kind itself and F2 (needed by FL), at xi and at all nodes above xi
        need = {kind} | ({"F2"} if kind == "FL" else set())
        pts = [{"x": xi, "Q2": q2}] + [{"x": xj, "Q2": q2} for xj in b.x]
        o0 = copy.deepcopy(ob)
        o0["observables"] = {f"{k}_{hv}": copy.deepcopy(pts) for k in need}
        bare = run.run(th0, o0)
        B = {k: [run.tensors(r) for r in bare[f"{k}_{hv}"]] for k in need}
        if clause == "M=0":
            ref = B[kind][0]
            for k in got:
                if not np.array_equal(got[k], ref[k]):
                    d = run.maxabs(got[k] - ref[k])
                    s = run.maxabs(ref[k])
                    if d > 1e-14 * s:
                        v.fail(f"C10:M=0:{kind}:mode{mode}", f"{name} TMC={mode} with M=0 differs from the bare result at key {k} by {d:.3e}")
            v.nontrivial = True
            v.label("nontrivial")
            return v
        nodes_above = [j for j, xj in enumerate(b.x) if xj > xi]

        def comb(k, w):
            """sum_j w_j * bare_k(x_j) per order key"""
            out = {}
            for key in B[k][0]:
                out[key] = sum(w[j] * B[k][1 + j][key] for j in range(b.n) if w[j] != 0.0) if np.any(w != 0) else 0.0 * B[k][0][key]
            return out

        at_xi = {k: B[k][0] for k in need}
        terms = []  # (coefficient, dict key->tensor)
        if kind in ("F2", "FL"):
            p_sh = {"F2": x * x / (xi * xi * rho**3), "FL": x * x / (xi * xi * rho)}[kind]
            c_h2 = {"F2": 6.0, "FL": 4.0}[kind] * mu * x**3 / rho ** {"F2": 4, "FL": 2}[kind]
            c_g2 = {"F2": 12.0, "FL": 8.0}[kind] * mu * mu * x**4 / rho ** {"F2": 5, "FL": 3}[kind]
            if mode == 2:
                if kind == "F2":
                    terms.append((p_sh * (1.0 + 6.0 * mu * x * xi / rho * (1.0 - xi) ** 2), at_xi["F2"]))
                else:
                    terms.append((p_sh, at_xi["FL"]))
                    # h2, g2 with F2(u) frozen at xi: int du/u^2 = (1-xi)/xi ; int du (u-xi)/u^2 = -ln xi - 1 + xi
                    terms.append((c_h2 * (1.0 - xi) / xi + c_g2 * (-math.log(xi) - 1.0 + xi), at_xi["F2"]))
            else:
                terms.append((p_sh, at_xi[kind]))
                terms.append((c_h2, comb("F2", interp_integral(b, xi, lambda u: 1.0 / (u * u)))))
                if mode == 3:
                    terms.append((c_g2, comb("F2", interp_integral(b, xi, lambda u: (u - xi) / (u * u)))))
        elif kind == "F3":
            p_sh = x * x / (xi * xi * rho * rho)
            if mode == 2:
                terms.append((p_sh * (1.0 - mu * x * xi / rho * (1.0 - xi) * math.log(xi)), at_xi["F3"]))
            else:
                terms.append((p_sh, at_xi["F3"]))
                # h3 = int du F3(u)/u = int du (u F3)(u)/u^2
                terms.append((2.0 * mu * x**3 / rho**3, comb("F3", interp_integral(b, xi, lambda u: 1.0 / (u * u)))))
        else:  # g1: object G(u) = 2 u g1(u)
            c_sh = 2.0 * x * x / (xi * rho**3) / (2.0 * xi)
            c12 = 2.0 * x * 4.0 * mu * x * x / rho**4
            f1 = (x + xi) / xi / 2.0
            f2 = (rho * rho - 3.0) / (2.0 * rho) / 2.0
            if mode == 2:
                terms.append((c_sh + c12 * (f1 * (1.0 - xi) / xi + f2 * (1.0 / xi - 1.0 + math.log(xi))), at_xi["g1"]))
            else:
                terms.append((c_sh, at_xi["g1"]))
                terms.append((c12 * f1, comb("g1", interp_integral(b, xi, lambda u: 1.0 / (u * u)))))
                if mode == 3:
                    terms.append((c12 * f2, comb("g1", interp_integral(b, xi, lambda u: math.log(u / xi) / (u * u)))))
        # floor: bare tensors that are themselves rounding residue (1e-16 of the LO weights) carry no information
        floor = sum(abs(c) for c, _ in terms) * run.noise_floor(*[t for _, t in terms], got) + 1e-18
        for key in got:
            exp = sum(c * t[key] for c, t in terms)
            s = sum(abs(c) * run.maxabs(t[key]) for c, t in terms)
            d = run.maxabs(got[key] - exp)
            # quadrature over the interpolant: yadism's border cut (1e-10 relative to the range [xi,1]) matters for xi -> 1
            rtol = 1e-6 + 4e-9 / (1.0 - xi)
            v.metric(f"formula:{kind}:mode{mode}", d / (rtol * s + floor))
            if not d <= rtol * s + floor:
                v.fail(
                    f"C10:formula:{kind}:mode{mode}",
                    f"{name} ({meta['process']}, {meta['scheme']}, PTO {th['PTO']}) TMC={mode} x={x!r} Q2={q2!r} M={m}: key {key} differs from the published formula by {d:.3e} "
                    f"(scale {s:.3e}, relative {d/(s+1e-300):.2e}; xi={xi:.6g}, rho={rho:.6g})",
                )
                break
        v.nontrivial = mu * x * x > 1e-3 and len(nodes_above) >= 2
    if v.nontrivial:
        v.label("nontrivial")
    return v


def warmup():
    from .. import warm

    warm.import_all()
    warm.tiny_run()
