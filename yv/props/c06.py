"""C06 - number of active flavours follows thresholds and scheme (boundary-value generation)."""

import copy
import math

import numpy as np
from hypothesis import strategies as st

from .. import cards, configs, run
from ..engine import Verdict

ID = "C06"
RULE = (
    "Hypothesis draws masses and threshold ratios (dyadic rationals, four-digit decimals and two-decimal values as users write them), a scheme "
    "(ZM-VFNS, FFNS/FFN0/FONLL-* with NfFF 3-5) and Q2 values exactly at, one ulp below and one ulp above each "
    "matching scale (m*k)^2 (correctly rounded product and square) plus generic ones. Reference nf = 3 + #{(m k)^2 <= Q2} (ZM-VFNS) or NfFF. Read-outs of the nf "
    "actually used: (lo) non-zero quark rows of an EM F2 LO run are exactly +-1..+-nf; (beta) at PTO 2 with "
    "renormalisation-scale variation O[(2,0,1,0)] = -(11-2nf/3) O[(1,0,0,0)] entrywise; (gluon) the NLO gluon row is "
    "proportional to sum_{q<=nf} e_q^2 across a threshold; (meta) two ZM-VFNS cards with different masses/ratios "
    "but equal reference nf at a point give bitwise equal outputs for it (PTO 1, or PTO 2 with both scale variations; card 1 computes all 1-4 points - which may "
    "lie in different nf regions - in one run, card 2 each point in a run of its own); (rows2) ZM-VFNS, EM/NC F2/FL of any heavyness at PTO 2: the non-zero quark "
    "rows of the O(as^2) tensor are exactly +-1..+-nf (the pure-singlet kernel reaches every active quark), or none when the tagged quark is not active. Non-trivial = some Q2 within one ulp of a matching scale."
)
ASSUMPTIONS = [
    "matching scales are generated in the natural order mu_c < mu_b < mu_t (eko's nf_default is defined for that order only)",
    "beta0 = 11 - 2 nf/3 typed in (a_s = alpha_s/4pi)",
]
BUDGET = {"quick": {"examples": 2400, "wall": 300}, "thorough": {"examples": 120000, "wall": 2400}}
MANDATORY = {
    t: ["nontrivial", "clause:lo", "clause:beta", "clause:gluon", "clause:meta", "clause:rows2", "rows2:tagged-below-heavier-active-quark", "meta:pto2+scale-variations", "meta:run-spans-several-nf", "at:charm", "at:bottom", "at:top",
        "below:charm", "below:bottom", "below:top", "above:charm", "scheme:ZM-VFNS", "scheme:FFNS", "scheme:FFN0",
        "scheme:FONLL-FFNS", "scheme:FONLL-FFN0"]
    for t in ("quick", "thorough")
}
SHRINK = {"quick": True, "thorough": True}
abbreviate = configs.abbreviate
QN = ["charm", "bottom", "top"]


def thresholds(th):
    out = []
    for m, k in (("mc", "kcThr"), ("mb", "kbThr"), ("mt", "ktThr")):
        mk = th[m] * th[k]
        out.append(mk * mk)  # correctly rounded (m k)^2
    return out


@st.composite
def q2_near(draw, th):
    thr = thresholds(th)
    i = draw(st.integers(0, 2))
    side = draw(st.sampled_from(["at", "below", "above", "generic"]))
    t = thr[i]
    if side == "at":
        return t, f"at:{QN[i]}"
    if side == "below":
        return math.nextafter(t, 0.0), f"below:{QN[i]}"
    if side == "above":
        return math.nextafter(t, math.inf), f"above:{QN[i]}"
    return draw(cards.q2_values(1.0, 1e6)), "generic"


@st.composite
def cases(draw, tier="quick"):
    clause = draw(st.sampled_from(["lo", "lo", "beta", "gluon", "meta", "rows2"]))
    scheme = "ZM-VFNS" if clause in ("gluon", "meta", "rows2") else draw(st.sampled_from(cards.SCHEMES))
    th = cards.theory(FNS=scheme, NfFF=draw(st.integers(3, 5)))
    th.update(draw(cards.masses(dyadic=draw(st.booleans()))))
    if draw(st.booleans()):  # two-decimal masses as users write them
        th["mc"] = draw(st.integers(110, 200)) / 100.0
        th["mb"] = draw(st.integers(350, 600)) / 100.0
        th["kcThr"] = th["kbThr"] = th["ktThr"] = 1.0
    grid = draw(cards.grids(nmax=7))
    ob = cards.observables(prDIS="EM")
    cards.apply_grid(ob, grid)
    n = draw(st.integers(1, 4))
    pts = [draw(q2_near(th)) for _ in range(n)]
    xs = [draw(cards.x_in_grid(grid, classes=["interior", "node"]))[0] for _ in range(n)]
    case = {"clause": clause, "theory": th, "obs": ob, "q2": [p[0] for p in pts], "where": [p[1] for p in pts], "x": xs}
    if clause == "meta":
        # a second card: other masses / ratios
        th2 = dict(th)
        th2.update(draw(cards.masses(dyadic=draw(st.booleans()))))
        case["theory2"] = th2
        case["sv"] = draw(st.booleans())
    if clause == "beta":
        case["kind"] = draw(st.sampled_from(["F2", "FL", "F3"]))
        case["process"] = draw(st.sampled_from(["EM", "NC", "CC"]))
        case["heavyness"] = draw(st.sampled_from(["light", "total"]))
    if clause == "rows2":
        case["kind"] = draw(st.sampled_from(["F2", "FL"]))
        case["process"] = draw(st.sampled_from(["EM", "NC"]))
        case["heavyness"] = draw(st.sampled_from(["total", "light", "charm", "charm", "bottom", "bottom", "top"]))
    case["meta"] = {"scheme": scheme}
    return case


def check_case(case):
    v = Verdict()
    cl, th, ob = case["clause"], case["theory"], copy.deepcopy(case["obs"])
    v.label(f"clause:{cl}", f"scheme:{th['FNS']}", *case["where"])
    v.nontrivial = any(w != "generic" for w in case["where"])
    if v.nontrivial:
        v.label("nontrivial")
    kins = [{"x": x, "Q2": q} for x, q in zip(case["x"], case["q2"])]
    nfs = [cards.nf_ref(th, q) for q in case["q2"]]
    for nf in nfs:
        v.label(f"nf:{nf}")
    if cl == "lo":
        t = dict(th, PTO=0)
        ob["observables"] = {"F2_light": kins}
        res = run.run(t, ob)["F2_light"]
        for r, nf, kin, where in zip(res, nfs, kins, case["where"]):
            tt = run.tensors(r)[(0, 0, 0, 0)]
            rows = sorted(run.PIDS[i] for i in range(14) if np.any(tt[i] != 0))
            exp = sorted([q for q in range(1, nf + 1)] + [-q for q in range(1, nf + 1)])
            if rows != exp:
                v.fail(f"C06:lo-rows:{th['FNS']}", f"active quark rows {rows} but nf_ref={nf} (Q2={kin['Q2']!r}, {where}, thresholds {thresholds(th)})")
            if r.nf is not None and False:
                pass
    elif cl == "beta":
        t = dict(th, PTO=2, RenScaleVar=True, FactScaleVar=False)
        ob["prDIS"] = case["process"]
        name = f"{case['kind']}_{case['heavyness']}"
        ob["observables"] = {name: kins}
        res = run.run(t, ob)[name]
        for r, nf, kin, where in zip(res, nfs, kins, case["where"]):
            ts = run.tensors(r)
            o1, o21 = ts[(1, 0, 0, 0)], ts[(2, 0, 1, 0)]
            b0 = 11.0 - 2.0 * nf / 3.0
            s = run.maxabs(o1)
            d = run.maxabs(o21 + b0 * o1)
            v.metric("beta0", d / (1e-12 * b0 * s + 1e-300))
            if not d <= 1e-12 * b0 * s + 1e-300:
                # which nf would fit?
                fit = [n for n in range(3, 7) if run.maxabs(o21 + (11 - 2 * n / 3) * o1) <= 1e-12 * 11 * s]
                v.fail(f"C06:beta0:{th['FNS']}", f"O(2,0,1,0) != -beta0(nf={nf}) O(1,0,0,0): |d|={d:.3e}, fits nf={fit} (Q2={kin['Q2']!r}, {where})")
            if s == 0:
                v.label("beta:zero")
    elif cl == "rows2":
        # beyond LO: at O(as^2) the pure-singlet kernel reaches every active quark, whatever quark the boson couples to - the non-zero
        # quark rows of the NNLO tensor are exactly the nf active flavours (none if the tagged quark itself is not active yet)
        t = dict(th, PTO=2, RenScaleVar=False, FactScaleVar=False)
        ob["prDIS"] = case["process"]
        name = f"{case['kind']}_{case['heavyness']}"
        ihq = {"charm": 4, "bottom": 5, "top": 6}.get(case["heavyness"], 0)
        v.label(f"rows2:{'tagged' if ihq else 'inclusive'}")
        ob["observables"] = {name: kins}
        res = run.run(t, ob)[name]
        for r, nf, kin, where in zip(res, nfs, kins, case["where"]):
            tt = run.tensors(r)[(2, 0, 0, 0)]
            rows = sorted(run.PIDS[i] for i in range(14) if np.any(tt[i] != 0) and run.PIDS[i] not in (21, 22))
            exp = [] if ihq > nf else sorted([q for q in range(1, nf + 1)] + [-q for q in range(1, nf + 1)])
            if ihq and nf > ihq:
                v.label("rows2:tagged-below-heavier-active-quark")
            if rows != exp:
                v.fail(f"C06:nnlo-rows:{'tagged' if ihq else 'inclusive'}", f"{name} ({case['process']}): quark rows of the O(as^2) tensor {rows} but nf_ref={nf} (Q2={kin['Q2']!r}, {where}, thresholds {thresholds(th)})")
    elif cl == "gluon":
        t = dict(th, PTO=1)
        # same x for all points; compare gluon rows pairwise
        x = case["x"][0]
        kins = [{"x": x, "Q2": q} for q in case["q2"]]
        ob["observables"] = {"F2_total": kins}
        res = run.run(t, ob)["F2_total"]
        ch = {3: 2 / 3, 4: 10 / 9, 5: 11 / 9, 6: 15 / 9}
        g = [run.tensors(r)[(1, 0, 0, 0)][run.ROW[21]] for r in res]
        for i in range(1, len(g)):
            a, b = g[0] / ch[nfs[0]], g[i] / ch[nfs[i]]
            s = max(run.maxabs(a), run.maxabs(b))
            d = run.maxabs(a - b)
            # the factor nf sits inside the integrand: adaptive quadrature (requested relative accuracy 1.5e-8 per piece) subdivides
            # differently; typical relative difference 1e-10, 4.2e-8 seen once in 125000 cases (thorough tier) -> 2e-7; a wrong nf
            # changes the ratio by 10 % and more
            v.metric("gluon-charge-sum", d / (2e-7 * s + 1e-300))
            if not d <= 2e-7 * s + 1e-300:
                v.fail("C06:gluon-charge-sum", f"NLO gluon rows at Q2={case['q2'][0]!r} (nf {nfs[0]}) and {case['q2'][i]!r} (nf {nfs[i]}) are not in the ratio of sum e_q^2")
    else:
        sv = bool(case.get("sv"))
        extra = {"PTO": 2, "RenScaleVar": True, "FactScaleVar": True} if sv else {"PTO": 1}
        t1, t2 = dict(th, **extra), dict(case["theory2"], **extra)
        if sv:
            v.label("meta:pto2+scale-variations")
        # keep only the points where both cards prescribe the same nf
        keep = [i for i, k in enumerate(kins) if cards.nf_ref(t1, k["Q2"]) == cards.nf_ref(t2, k["Q2"])]
        v.label(f"meta:kept:{min(len(keep),1)}")
        if not keep:
            v.nontrivial = False
            v.labels = [l for l in v.labels if l != "nontrivial"]
            return v
        if len({nfs[i] for i in keep}) < len(set(nfs)) or len(set(nfs)) > 1:
            v.label("meta:run-spans-several-nf")
        # card 1: all points in one run (they may lie in different nf regions); card 2: each kept point in a run of its own
        ob["observables"] = {"F2_total": kins, "FL_total": kins}
        r1 = run.run(t1, ob)
        for i in keep:
            ob2 = copy.deepcopy(ob)
            ob2["observables"] = {"F2_total": [kins[i]], "FL_total": [kins[i]]}
            r2 = run.run(t2, ob2)
            for name in ("F2_total", "FL_total"):
                ok, why = run.bitwise_equal_res(r1[name][i], r2[name][0])
                if not ok:
                    v.fail(
                        "C06:meta:threshold-dependence",
                        f"ZM-VFNS results with equal nf_ref={nfs[i]} differ ({why}) at Q2={kins[i]['Q2']!r} for {name} "
                        f"(card 1: run over Q2={case['q2']} with nf {nfs}; card 2: the point alone)",
                    )
    return v


def warmup():
    from .. import warm

    warm.import_all()
    warm.tiny_run()
