"""Catalogue of RSL triples actually produced by the package, harvested (not hand-listed).

For a lattice of configurations one kinematic point each, every `cfe.coeff[o]()` of every kernel returned by
`Combiner(esf).collect_elems()` is taken, de-duplicated by (module, class, order, nf, log10(Q2/m2) bucket); every
`split.raw_labels[*][label](nf)` for nf 3..6 is added. The order of the list is deterministic, so an entry can be
addressed by its index/id from a JSON case.
"""

import math
import warnings

from . import cards, run

_CACHE = {}

KINDS = ["F2", "FL", "F3", "g1", "gL", "g4"]


class Entry:
    def __init__(self, eid, family, rsl, nf, meta):
        self.id = eid
        self.family = family
        self.rsl = rsl
        self.nf = nf
        self.meta = meta

    def part(self, name):
        return getattr(self.rsl, name), self.rsl.args[name]


def _configs(level):
    """(theory overrides, process, name, Q2, x)"""
    out = []
    ratios = [3.0, 30.0, 1000.0] if level != "full" else [1.5, 3.0, 10.0, 30.0, 100.0, 1000.0, 1e4]
    mc = 1.5
    for kind in KINDS:
        pol = kind in ("g1", "gL", "g4")
        pto = 2 if kind == "g1" else 3
        for process in ("NC",) if pol else ("NC", "CC"):
            # massless, nf = 3..6 through Q2
            for q2 in (2.0, 10.0, 100.0, 1e5):
                out.append((dict(FNS="ZM-VFNS", PTO=pto), process, f"{kind}_total", q2, 0.05))
            out.append((dict(FNS="ZM-VFNS", PTO=pto), process, f"{kind}_charm", 100.0, 0.05))
            for nfff in (3, 4):
                mh = {3: 1.5, 4: 4.5}[nfff]
                for r in ratios:
                    q2 = r * mh * mh
                    for scheme in ("FFNS", "FFN0"):
                        th = dict(FNS=scheme, PTO=pto, NfFF=nfff, mc=mc, mb=4.5, mt=173.0)
                        # two values of x: the intrinsic and CC heavy kernels depend on the kinematic point itself
                        for x in (0.05, 0.45):
                            out.append((th, process, f"{kind}_total", q2, x))
    return out


def build(level="quick"):
    if level in _CACHE:
        return _CACHE[level]
    from yadism.coefficient_functions import Combiner
    from yadism.coefficient_functions import splitting_functions as split

    run._silence()
    entries, seen = [], set()
    problems = []
    with warnings.catch_warnings():
        warnings.simplefilter("ignore")
        for over, process, name, q2, x0 in _configs(level):
            th = cards.theory(**over)
            proj = "neutrino" if process == "CC" else "electron"
            ob = cards.observables(prDIS=process, ProjectileDIS=proj, observables={name: [{"x": x0, "Q2": q2}]})
            try:
                r = run.runner(th, ob)
                esf = r.observables[name].elements[0]
                kernels = Combiner(esf).collect_elems()
            except Exception as e:  # pylint: disable=broad-except
                problems.append(f"{name} {process} {over}: {e}")
                continue
            for ker in kernels:
                cls = type(ker.coeff)
                mod = cls.__module__.replace("yadism.coefficient_functions.", "")
                family = mod.split(".")[0]
                nf = getattr(ker.coeff, "nf", None)
                m2 = getattr(ker.coeff, "m2hq", None) or getattr(ker.coeff, "m1sq", None)
                if m2 is None and hasattr(ker.coeff, "L"):  # asymptotic classes keep L = ln(Q2/m2)
                    m2 = q2 / math.exp(float(ker.coeff.L))
                if m2 is None and hasattr(ker.coeff, "labda"):  # CC heavy: lambda = 1/(1+m2/Q2)
                    m2 = q2 * (1.0 / float(ker.coeff.labda) - 1.0)
                xi = None if not m2 else round(math.log10(q2 / m2), 1)
                for o in range(0, th["PTO"] + 1):
                    try:
                        rsl = ker.coeff[o]()
                    except Exception as e:  # pylint: disable=broad-except
                        problems.append(f"{mod}.{cls.__name__}[{o}] {name} {process} Q2={q2}: {type(e).__name__}: {e}")
                        continue
                    if rsl is None:
                        continue
                    if rsl.reg is None and rsl.sing is None and rsl.loc is None:
                        continue
                    xdep = x0 if family in ("intrinsic", "heavy") else None
                    key = (mod, cls.__name__, o, nf, xi, xdep)
                    if key in seen:
                        continue
                    seen.add(key)
                    eid = f"{family}:{mod.split('.', 1)[-1]}.{cls.__name__}:{o}:nf{nf}" + (f":lgxi{xi}" if xi is not None else "") + (f":x{xdep}" if xdep not in (None, 0.05) else "")
                    entries.append(
                        Entry(eid, family, rsl, nf, {"kind": name.split("_")[0], "process": process, "order": o, "q2": q2, "m2": m2, "cls": cls.__name__, "module": mod, "x": x0})
                    )
        for lvl, labels in enumerate(split.raw_labels):
            for lab, fnc in labels.items():
                for nf in (3, 4, 5, 6):
                    rsl = fnc(nf)
                    entries.append(Entry(f"splitting:{lab}:nf{nf}", "splitting", rsl, nf, {"label": lab, "order": lvl + 1}))
    _CACHE[level] = (entries, problems)
    return _CACHE[level]
