"""Independent implementation of the piecewise-Lagrange interpolation basis.

Built only from (grid, degree, log flag) by the block rule documented in eko's InterpolatorDispatcher:
interval i=[x_i,x_{i+1}] uses the block of degree+1 consecutive nodes centred on it (shifted inside the
grid at the borders; for even degree the block lying higher). Polynomials are evaluated by the product
formula in t=ln x (log mode) or t=x, never through monomial coefficients.
"""

import bisect
import math

import numpy as np


class Basis:
    def __init__(self, grid, degree, log):
        self.x = [float(v) for v in sorted(grid)]
        self.n = len(self.x)
        self.d = int(degree)
        self.log = bool(log)
        self.t = [math.log(v) for v in self.x] if self.log else list(self.x)
        po2 = self.d // 2
        if self.d % 2 == 0:
            po2 -= 1
        self.blocks = []
        for i in range(self.n - 1):
            kmin = max(0, i - po2)
            kmax = kmin + self.d
            if kmax >= self.n:
                kmax = self.n - 1
                kmin = kmax - self.d
            self.blocks.append((kmin, kmax))

    def interval(self, x):
        """index i of the interval (x_i, x_{i+1}] containing x (x_0 belongs to interval 0); None outside."""
        if x < self.x[0] or x > self.x[-1]:
            return None
        i = bisect.bisect_left(self.x, x) - 1
        return max(i, 0)

    def support_max(self, j):
        """upper end of the support of p_j"""
        hi = None
        for i, (a, b) in enumerate(self.blocks):
            if a <= j <= b:
                hi = self.x[i + 1]
        return hi

    def support_min(self, j):
        for i, (a, b) in enumerate(self.blocks):
            if a <= j <= b:
                return self.x[i]
        return None

    def lagrange(self, j, block, tt):
        a, b = block
        if not a <= j <= b:
            return 0.0
        num = den = 1.0
        tj = self.t[j]
        for k in range(a, b + 1):
            if k == j:
                continue
            num *= tt - self.t[k]
            den *= tj - self.t[k]
        return num / den

    def p(self, j, x):
        i = self.interval(x)
        if i is None:
            return 0.0
        tt = math.log(x) if self.log else x
        return self.lagrange(j, self.blocks[i], tt)

    def all_p(self, x):
        i = self.interval(x)
        out = np.zeros(self.n)
        if i is None:
            return out
        tt = math.log(x) if self.log else x
        a, b = self.blocks[i]
        for j in range(a, b + 1):
            out[j] = self.lagrange(j, (a, b), tt)
        return out

    def lebesgue(self):
        """max over sample points of sum_j |p_j(x)|"""
        worst = 1.0
        for i in range(self.n - 1):
            for f in (0.25, 0.5, 0.75):
                worst = max(worst, float(np.abs(self.all_p(self.x[i] + f * (self.x[i + 1] - self.x[i]))).sum()))
        return worst

    def selftest(self):
        """partition of unity and Kronecker property; raises AssertionError (harness error) if broken"""
        for k, xk in enumerate(self.x):
            v = self.all_p(xk)
            e = np.zeros(self.n)
            e[k] = 1.0
            assert np.allclose(v, e, atol=1e-12), ("kronecker", k, v)
        for i in range(self.n - 1):
            xm = 0.5 * (self.x[i] + self.x[i + 1])
            assert abs(self.all_p(xm).sum() - 1.0) < 1e-9, ("unity", i, self.x, self.d, self.log)
        return True
