"""Process environment of every check. Must be imported before numba/yadism.

* the numba on-disk cache lives outside /repo, in a directory keyed on a hash of the whole
  source tree under test (numba invalidates per file, not per call graph, so a changed callee
  would otherwise leave stale machine code for its callers);
* logging of yadism is silenced.
"""

import hashlib
import os
import pathlib
import shutil
import sys

HOME = pathlib.Path(os.environ.get("YV_HOME", pathlib.Path(__file__).resolve().parent.parent))
REPO = pathlib.Path(os.environ.get("YV_REPO", "/repo"))
SRC = REPO / "src" / "yadism"
CACHE_ROOT = pathlib.Path(os.environ.get("YV_CACHE", HOME / ".cache")) / "numba"


def tree_hash():
    h = hashlib.sha256()
    files = sorted(
        p for p in SRC.rglob("*") if p.suffix in (".py", ".npy") and "__pycache__" not in p.parts
    )
    for p in files:
        h.update(str(p.relative_to(SRC)).encode())
        h.update(b"\0")
        h.update(p.read_bytes())
        h.update(b"\0")
    return h.hexdigest()[:20]


TREE = tree_hash()


def _prune(keep=3):
    try:
        dirs = sorted(
            (d for d in CACHE_ROOT.iterdir() if d.is_dir()), key=lambda d: d.stat().st_mtime
        )
    except FileNotFoundError:
        return
    for d in dirs[:-keep]:
        if d.name.split("-")[0] != TREE:
            shutil.rmtree(d, ignore_errors=True)


def setup(jit=True, tag=""):
    """Configure the numba cache. `tag` separates caches of differently configured compilers."""
    d = CACHE_ROOT / (TREE + (("-" + tag) if tag else ""))
    d.mkdir(parents=True, exist_ok=True)
    os.utime(d)
    os.environ["NUMBA_CACHE_DIR"] = str(d)
    if not jit:
        os.environ["NUMBA_DISABLE_JIT"] = "1"
    _prune()
    return d


def check_import_origin():
    """The package under test has to come from YV_REPO."""
    import yadism

    origin = pathlib.Path(yadism.__file__).resolve()
    if SRC.resolve() not in origin.parents:
        print(f"HARNESS-ERROR: yadism imported from {origin}, expected under {SRC}", file=sys.stderr)
        sys.exit(2)
